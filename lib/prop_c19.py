"""C19 — backup and restore reproduce the replicated data with correct authorship.

Part (ii) (restore over a live file): specs/RestoreLock.tla — the lock sequence of lock_all / restore against reader
connections following SQLite's WAL and rollback locking and cache-validity rules, TLC exhaustive (whole reads, untouched
on abort, exclusive copy, termination; dropping the WAL truncation or the wal-index reset must break it) — bound by a
reader process looping during a real restore and by `vh restore-cache-probe` (reader connections that were idle during a
real restore).  Known finding S14 (stale page cache of such connections) is the model's counter-example confirmed on
the real command.

Decided by: specs/BackupRestore.tla (site-ordinal table and per-cell author ordinals under Backup / Restore with and
without keeping the destination's actor id; every initial ordinal assignment within the bounds, TLC exhaustive) bound
to the real `corrosion backup` / `corrosion restore` commands (binary rebuilt from /repo): a source database built on
real agents with cells authored by the source, a foreign actor and the destination itself plus a deletion; the ordinal tables of source, backup and both restored databases are compared with the model's Backup / Restore actions, and
crsql_changes with the authors' actor ids with the source's; a reader process loops on the destination database while
the restore runs over it."""
import json, os, subprocess, time
import vlib

PID = "C19"
LEVEL = "exploration"
TARGET = os.path.join(vlib.HARNESS, "target-repo")
BIN = os.environ.get("VERIF_CORROSION_BIN") or os.path.join(TARGET, "debug", "corrosion")


def build_bin():
    t0 = time.time()
    if os.environ.get("VERIF_CORROSION_BIN"):
        return
    env = dict(os.environ, CARGO_TARGET_DIR=TARGET, CARGO_NET_OFFLINE="true", CARGO_PROFILE_DEV_DEBUG="0")
    p = subprocess.run(["cargo", "build", "--offline", "-p", "klukai", "--bin", "corrosion"], cwd="/repo", env=env, stdout=subprocess.PIPE, stderr=subprocess.STDOUT, text=True)
    if p.returncode != 0:
        raise vlib.ToolError("building the corrosion binary failed:\n" + p.stdout[-3000:])
    vlib.log("[C19] corrosion binary built from /repo (%.0fs)" % (time.time() - t0))


def model_backup(site):
    """BackupRestore!Backup on a list of [ordinal, actor]"""
    self_ = [a for (o, a) in site if o == 0]
    if len(self_) != 1:
        return None
    rest = sorted([o, a] for (o, a) in site if o != 0)
    return rest, self_[0]


def judge(d):
    f = []   # property failures
    m = []   # model mismatches
    if not d["backup_ok"]:
        return ["the backup command failed: " + d["backup_log"][-300:]], m
    truth = d["truth"]
    authors = {r[6] for r in truth}
    if len(authors) < 3:
        raise vlib.ToolError("scenario too weak: the source holds changes of %d authors only" % len(authors))
    if d["backup_members_rows"] != 0:
        f.append("the backup carries %s membership rows of the source" % d["backup_members_rows"])
    if d["backup_has_ordinal0"] != 0:
        f.append("the backup still has an ordinal-0 (self) site row: a node restored from it would impersonate the source")
    # model binding: the backup's ordinal table is Backup(source's table)
    mb = model_backup(d["site_source"])
    if mb is None:
        m.append("source has no unique ordinal-0 row")
    else:
        rest, self_actor = mb
        sb = sorted(d["site_backup"])
        moved = [r for r in sb if r[1] == self_actor]
        others = [r for r in sb if r[1] != self_actor]
        if others != rest or len(moved) != 1 or moved[0][0] == 0 or moved[0][0] in {o for o, _ in rest}:
            m.append("backup ordinal table %s is not Backup(%s)" % (sb, d["site_source"]))
    for name in ("fresh", "self"):
        r = d[name]
        if not r["ok"]:
            f.append("restore (%s) failed: %s" % (name, r["log"][-300:]))
            continue
        if r["changes"] != truth:
            missing = [x for x in truth if x not in r["changes"]]
            extra = [x for x in r["changes"] if x not in truth]
            f.append("restore (%s): crsql_changes differ from the source's: missing/changed %s, unexpected %s" % (name, json.dumps(missing[:3]), json.dumps(extra[:3])))
        ords = [o for o, _ in r["site"]]
        acts = [a for _, a in r["site"]]
        if len(set(ords)) != len(ords) or len(set(acts)) != len(acts):
            f.append("restore (%s): ordinal table not one-to-one: %s" % (name, r["site"]))
    s = d["self"]
    if s["ok"]:
        if s["actor"] != s["wanted_actor"]:
            f.append("restore --self-actor-id: the node came back as %s, not as %s" % (s["actor"], s["wanted_actor"]))
        if s["subscriptions_dir_left"]:
            f.append("restore left the subscriptions directory of the destination in place")
        if [0, s["wanted_actor"]] not in s["site"]:
            m.append("restored ordinal table %s does not have the kept actor at ordinal 0" % s["site"])
        bad = [x for x in s["distinct_reads"] if x not in (s["old_digest"], s["new_digest"])]
        if bad:
            f.append("a concurrent reader saw neither the old nor the new database: %s (old %s, new %s)" % (bad[:2], s["old_digest"], s["new_digest"]))
        badp = [x for x in s.get("pool_reads_after", []) if not x.startswith("REFUSED") and x not in (s["old_digest"], s["new_digest"])]
        if badp:
            f.append("a connection that was open before the restore reads neither the old nor the new database afterwards: %s (old %s, new %s)" % (badp[:1], s["old_digest"], s["new_digest"]))
        if s["old_digest"] == s["new_digest"]:
            raise vlib.ToolError("scenario too weak: old and new destination content are the same")
    fr = d["fresh"]
    if fr["ok"] and fr["actor"] in authors:
        f.append("restore onto a fresh node: the node took the identity %s of an author in the data" % fr["actor"])
    return f, m


RL_CONFIGS = [
    # (name, Wal, Quiescent, SameVers, invariants expected to hold, invariant expected to fail under S14)
    ("wal-active", True, False, False, "C19_ReadsWhole C19_FreshReadsWhole C19_AbortUntouched C19_CopyExclusive", None),
    ("wal-quiescent", True, True, False, "C19_FreshReadsWhole C19_AbortUntouched C19_CopyExclusive", "C19_ReadsWhole"),
    ("rollback", False, True, False, "C19_ReadsWhole C19_FreshReadsWhole C19_AbortUntouched C19_CopyExclusive", None),
    ("rollback-same-version-bytes", False, True, True, "C19_FreshReadsWhole C19_AbortUntouched C19_CopyExclusive", "C19_ReadsWhole"),
]


def rl_cfg(name, wal, qui, same, invs, fair=False, trunc=True, zero=True, readers=2, marks='{"READa", "READb"}'):
    c = os.path.join(vlib.scratch(), "rl_%s_%s.cfg" % (name, abs(hash(invs + marks)) % 100000))
    b = lambda x: "TRUE" if x else "FALSE"
    open(c, "w").write('SPECIFICATION %s\nCONSTANTS\n Readers = {%s}\n Wal = %s\n Quiescent = %s\n SameVers = %s\n TruncateWal = %s\n ZeroShm = %s\n LockedMarks = %s\n MaxTx = 2\nINVARIANTS %s\n%s'
                       % ("FairSpec" if fair else "Spec", ", ".join('"r%d"' % i for i in range(1, readers + 1)), b(wal), b(qui), b(same), b(trunc), b(zero), marks, invs, "PROPERTIES C19_Terminates\n" if fair else ""))
    return c


def lock_model(tier, s14_open):
    """RestoreLock.tla: returns (states, mismatch list, model shows S14)"""
    states, mm, shows = 0, [], False
    for (name, wal, qui, same, holds, fails) in RL_CONFIGS:
        r = vlib.run_tlc("RestoreLock.tla", rl_cfg(name, wal, qui, same, holds, fair=True, readers=2 if tier == "quick" else 3), workers=4, timeout=1500)
        if r.error:
            raise vlib.ToolError("TLC RestoreLock %s: %s\n%s" % (name, r.error, r.output[-1200:]))
        states += r.distinct
        if r.violated:
            mm.append("RestoreLock.tla (%s) violates %s" % (name, r.violated))
        if fails:
            r2 = vlib.run_tlc("RestoreLock.tla", rl_cfg(name, wal, qui, same, fails), workers=4, timeout=1500)
            if r2.error:
                raise vlib.ToolError("TLC RestoreLock %s: %s" % (name, r2.error))
            if r2.violated:
                shows = True
            elif s14_open:
                vlib.log("[C19] note: RestoreLock.tla (%s) no longer violates %s" % (name, fails))
    # the steps of the restore are needed: dropping one must break the model
    for (trunc, zero) in ((False, True), (True, False)):
        r = vlib.run_tlc("RestoreLock.tla", rl_cfg("drop", True, False, False, "C19_FreshReadsWhole", trunc=trunc, zero=zero), workers=4, timeout=900)
        if not r.violated:
            mm.append("RestoreLock.tla is vacuous: without %s the invariant still holds" % ("the WAL truncation" if not trunc else "the wal-index reset"))
    # every read mark has to be locked: leaving one out must break the model
    r = vlib.run_tlc("RestoreLock.tla", rl_cfg("marks", True, False, False, "C19_FreshReadsWhole C19_CopyExclusive", marks='{"READa"}'), workers=4, timeout=900)
    if not r.violated:
        mm.append("RestoreLock.tla is vacuous: with a read mark left unlocked the invariants still hold")
    return states, mm, shows


def judge_cache(d, s14_open):
    f, known = [], []
    for c in d["cases"]:
        label = "%s mode, %s" % (c["mode"], "old and new file of the same shape" if c["same_shape"] else "files of different size")
        if not c["restore_ok"]:
            f.append("restore over an idle reader connection failed (%s): %s" % (label, c["log"][-200:]))
            continue
        if c["c2_first_after"] != c["new"]:
            f.append("a connection opened after the restore reads %s, not the new database %s (%s)" % (c["c2_first_after"], c["new"], label))
        for k in ("c1_after", "c1_again"):
            v = c[k]
            if v.startswith("REFUSED") or v in (c["old"], c["new"]):
                continue
            text = "a connection opened before the restore reads neither the old (%s) nor the new (%s) database afterwards: %s (%s)" % (c["old"], c["new"], v, label)
            in_sig = c["mode"] == "wal" or c["same_shape"]
            if s14_open and in_sig:
                known.append("S14 " + text)
            else:
                f.append(text)
            break
    return f, known


def run(tier):
    t0 = time.time()
    violations, mismatch = [], []
    known = []
    s14_open = any(k["id"] == "S14" for k in vlib.open_findings(PID))
    build_bin()
    lstates, lmm, model_shows = lock_model(tier, s14_open)
    mismatch += lmm
    vlib.log("[C19] TLC RestoreLock: %d distinct states over %d configurations; stale-cache counter-example present: %s" % (lstates, len(RL_CONFIGS), model_shows))
    out = os.path.join(vlib.scratch(), "cp.json")
    p = vlib.run_vh(["restore-cache-probe", BIN, out], timeout=600)
    if p.returncode != 0:
        raise vlib.ToolError("vh restore-cache-probe failed: %s" % p.stderr[-1500:])
    cp = json.load(open(out))
    fl, kn = judge_cache(cp, s14_open)
    for t in fl[:4]:
        rp = vlib.write_replay(PID, "cache", {"failure": t, "cases": cp["cases"]})
        violations.append((t, rp))
    # a reader process pinned on each WAL read mark while the real restore runs
    out = os.path.join(vlib.scratch(), "pp.json")
    p = vlib.run_vh(["restore-pin-probe", BIN, out], timeout=900)
    if p.returncode != 0:
        raise vlib.ToolError("vh restore-pin-probe failed: %s" % p.stderr[-1500:])
    pp = json.load(open(out))
    for cse in pp["cases"]:
        if not cse["reader_ready"]:
            raise vlib.ToolError("the pinned reader (read mark %d) did not come up: %s" % (cse["read_mark"], cse["reader_stderr"]))
        rep = cse["reader_report"].split(" ", 1)
        t = None
        if len(rep) != 2:
            raise vlib.ToolError("pinned reader gave no report: %r %s" % (cse["reader_report"], cse["reader_stderr"]))
        if not rep[1].startswith("refused") and rep[0] != rep[1]:
            t = "a read transaction pinned on WAL read mark %d saw generation %s of table a and generation %s of table b: a mix of the old and the new database (restore %s after %d ms)" % (cse["read_mark"], rep[0], rep[1], "succeeded" if cse["restore_ok"] else "failed", cse["restore_ms"])
        elif cse["untouched_if_failed"] is False:
            t = "a failed restore (reader on read mark %d) changed the destination file" % cse["read_mark"]
        if t:
            violations.append((t, vlib.write_replay(PID, "pinned", cse)))
    known += kn[:1]
    if s14_open and not kn:
        vlib.log("[C19] note: known finding S14 did not show in this run")
    c = os.path.join(vlib.scratch(), "br.cfg")
    consts = 'Actors = {"a", "b", "c"}\n Cells = {1, 2}' if tier == "quick" else 'Actors = {"a", "b", "c", "d"}\n Cells = {1, 2, 3}'
    open(c, "w").write('SPECIFICATION Spec\nCONSTANTS\n %s\n NewActor = "fresh"\nINVARIANTS C19_Authorship C19_OrdinalsUnique C19_SelfAtZero\n' % consts)
    r = vlib.run_tlc("BackupRestore.tla", c, workers=4, timeout=900, deadlock=False)
    if r.error:
        raise vlib.ToolError("TLC BackupRestore: %s\n%s" % (r.error, r.output[-1500:]))
    if r.violated:
        mismatch.append("BackupRestore.tla violates %s" % r.violated)
    vlib.log("[C19] TLC BackupRestore: %d distinct states" % r.distinct)
    rounds = 2 if tier == "quick" else 10
    samples, reads, refused = [], 0, 0
    for i in range(rounds):
        out = os.path.join(vlib.scratch(), "bk.%d.json" % i)
        p = vlib.run_vh(["backup-probe", BIN, out], timeout=600)
        if p.returncode != 0:
            raise vlib.ToolError("vh backup-probe failed: %s" % p.stderr[-1500:])
        d = json.load(open(out))
        fl, mm = judge(d)
        for t in fl[:4]:
            rp = vlib.write_replay(PID, "probe", {"failure": t, "result": d})
            violations.append((t, rp))
        mismatch += mm
        if d["backup_ok"] and d["self"]["ok"]:
            reads += d["self"]["reads_ok"]; refused += d["self"]["reads_refused"]
        samples.append({"truth_rows": len(d["truth"]), "site_source": d["site_source"], "site_backup": d.get("site_backup"),
                        "reads_ok": d.get("self", {}).get("reads_ok"), "reads_refused": d.get("self", {}).get("reads_refused"), "distinct_reads": d.get("self", {}).get("distinct_reads")})
        if violations:
            break
    if reads == 0 and not violations:
        raise vlib.ToolError("the concurrent reader never read successfully")
    cov = {"evaluations": rounds * 2, "distinct_nontrivial": rounds * 2,
           "rule": "per round: one source (own, foreign-authored and destination-authored cells, a deletion, an overwrite of a foreign cell, a membership row), one backup, a restore onto an absent database and a restore with --self-actor-id over the live database of a running agent with a reader process; %d successful concurrent reads, %d refused" % (reads, refused),
           "samples": samples[:3], "exhaustive": False, "model_states": r.distinct + lstates,
           "lock_model": {"configurations": [c[0] for c in RL_CONFIGS], "distinct_states": lstates, "stale_cache_counterexample": model_shows},
           "cache_probe": [{k: v for k, v in c.items() if k != "log"} for c in cp["cases"]],
           "pinned_reader_probe": [{k: v for k, v in c.items() if k != "log"} for c in pp["cases"]]}
    vlib.write_evidence(PID, tier, LEVEL, cov, time.time() - t0, violations=len(violations), assumptions=[
        "one table shape (tests) and WAL journal mode only; rollback-journal sources and arbitrary schemas are not explored",
        "the reader's digest (row count, id sum, texts, clock rows) stands for 'entirely old or entirely new'",
        "the destination agent keeps its connections open during the restore but issues no writes"])
    return {"violations": violations, "mismatch": mismatch, "known": known}


def replay(path):
    raise vlib.ToolError("re-run ./check C19 (the scenario is regenerated)")
