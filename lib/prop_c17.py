"""C17 — the HTTP API enforces its token on every route; read endpoints cannot write.

Decided by: specs/ApiGate.tla (the decision and effect tables, all 5 376 combinations checked by TLC) replayed in full
against the live HTTP listener of two real agents (token configured / not configured): every route x method x
Authorization header shape, and every statement class on the read endpoints with a digest of database and
bookkeeping taken before and after."""
import json, os, re, time
import vlib

PID = "C17"
LEVEL = "exploration"
SPEC_ROUTES = {"/v1/transactions", "/v1/queries", "/v1/subscriptions", "/v1/updates/{table}", "/v1/subscriptions/{id}", "/v1/migrations", "/v1/table_stats"}


def routes_in_source():
    src = open("/repo/crates/klukai-agent/src/agent/util.rs").read()
    i = src.find("fn setup_http_api_handler")
    j = src.find("async fn require_authz")
    return set(re.findall(r'"(/v1/[^"]*)"', src[i:j]))


def judge(cases):
    f = []
    for c in cases:
        if c["kind"] == "decision":
            right = c["header"] in ("right", "right_lowercase_scheme")
            if c["token_set"] and not right:
                if not (400 <= c["status"] < 500):
                    f.append("%s %s with header shape %r answered %d although a token is configured" % (c["method"], c["route"], c["header"], c["status"]))
                if not c["unchanged"]:
                    f.append("%s %s with header shape %r changed the node although it was rejected" % (c["method"], c["route"], c["header"]))
            else:
                if c["status"] in (401, 403):
                    f.append("%s %s was refused (%d) although %s" % (c["method"], c["route"], c["status"], "the right token was sent" if c["token_set"] else "no token is configured"))
        else:
            if not c["unchanged"]:
                f.append("statement class %r submitted to /v1/%s changed the node: %s -> %s" % (c["class"], c["route"], json.dumps(c["before"]), json.dumps(c["after"])))
    return f


def run(tier):
    t0 = time.time()
    violations, mismatch = [], []
    src_routes = routes_in_source()
    if src_routes != SPEC_ROUTES:
        raise vlib.ToolError("specification out of date: the router registers %s, ApiGate.tla knows %s" % (sorted(src_routes), sorted(SPEC_ROUTES)))
    c = os.path.join(vlib.scratch(), "ag.cfg")
    open(c, "w").write("SPECIFICATION Spec\nCONSTANTS\n Routes <- R\n ReadRoutes <- RR\n Methods <- M\n RouteMethod <- RM\n Headers <- H\n StmtClasses <- SC\n ReadOnlyClasses <- ROC\nINVARIANTS C17_TokenEnforced C17_OpenWithoutToken C17_ReadEndpointsCannotWrite\n")
    r = vlib.run_tlc("MCApiGate.tla", c, workers=4, timeout=600)
    if r.error:
        raise vlib.ToolError("TLC ApiGate: %s" % r.error)
    if r.violated:
        mismatch.append("ApiGate.tla violates %s" % r.violated)
    out = os.path.join(vlib.scratch(), "ag.json")
    p = vlib.run_vh(["api-gate", out], timeout=900, env_extra={"VH_THREADS": "4"})
    if p.returncode != 0:
        raise vlib.ToolError("vh api-gate failed: %s" % p.stderr[-1500:])
    d = json.load(open(out))
    fl = judge(d["cases"])
    for t in fl[:6]:
        rp = vlib.write_replay(PID, "matrix", {"failure": t, "cases": [c for c in d["cases"] if c["kind"] == "effect"][:4]})
        violations.append((t, rp))
    cov = {"evaluations": len(d["cases"]), "distinct_nontrivial": len({(c.get("route"), c.get("method"), c.get("header"), c.get("class"), c["token_set"]) for c in d["cases"]}),
           "rule": "token {set, unset} x 7 routes + an unknown path x {GET, POST, PUT, DELETE} x 7 Authorization shapes; 12 statement classes x 2 read endpoints x token {set, unset}; all combinations executed against a live listener",
           "samples": [c for c in d["cases"] if c["kind"] == "effect"][:3] + [c for c in d["cases"] if c["kind"] == "decision"][:3],
           "exhaustive": True, "model_states": r.distinct}
    vlib.write_evidence(PID, tier, LEVEL, cov, time.time() - t0, violations=len(violations), assumptions=[
        "'whatever statement is submitted' is covered by a finite catalogue of statement classes, not by all SQL texts",
        "the Bearer scheme is matched case-insensitively (RFC 7235); both spellings count as the right token",
        "the route list is extracted from setup_http_api_handler at check time and must equal the specification's"])
    return {"violations": violations, "mismatch": mismatch}


def replay(path):
    raise vlib.ToolError("re-run ./check C17 (the matrix is regenerated)")
