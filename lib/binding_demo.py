#!/usr/bin/env python3
"""Demonstration that the specifications are bound to the code and not vacuous (DESIGN.md 11.7).

 1. Replication / Ingest: record runs of the real code, show TLC accepts them, then corrupt ONE recorded field (or drop
    one recorded event = a removed hook) and show TLC rejects every corrupted trace.
 2. Flip the `Fix*` constants of the specifications back to the behaviour of the code as found: TLC must produce a
    counter-example for the corresponding C-invariant (the invariants are not vacuous).
Writes /verif/binding_demo.json.  Not a property check: exit 0 when every demonstration behaved as expected, 2 otherwise."""
import copy, json, os, random, sys, time
sys.path.insert(0, os.path.dirname(os.path.abspath(__file__)))
import vlib, repl
import prop_c10, prop_c12, prop_c18, prop_c02


def corruptions_repl(events, rnd):
    out = []
    idx = [i for i, e in enumerate(events) if "post" in e and e["post"].get("cells")]
    for kind in ("cell_cv", "row_val", "book_max", "own_dbv", "drop_event", "cell_site", "needed"):
        ev = copy.deepcopy(events)
        if kind == "drop_event":
            cand = [i for i, e in enumerate(ev) if e["op"]["op"] in ("deliver", "tx") and e.get("ok", True)]
            if not cand:
                continue
            i = rnd.choice(cand); del ev[i]; what = "event %d (%s) removed" % (i, events[i]["op"]["op"])
        else:
            if not idx:
                continue
            i = rnd.choice(idx); p = ev[i]["post"]
            if kind == "cell_cv":
                p["cells"][0]["cv"] += 1
            elif kind == "cell_site":
                p["cells"][0]["site"] = p["cells"][0]["site"] % 2 + 1
            elif kind == "row_val":
                p["rows"][0][1] += 1
            elif kind == "book_max":
                p["book"][0]["max"] += 1
            elif kind == "own_dbv":
                p["own"]["dbv"] += 1
            elif kind == "needed":
                p["book"][0]["needed"] = p["book"][0]["needed"] + [[7, 7]]
            what = "event %d: %s altered" % (i, kind)
        out.append((what, ev))
    return out


def main():
    t0 = time.time()
    vlib.build_harness()
    rnd = random.Random(11)
    res = {"replication": [], "ingest": [], "constant_flips": []}
    bad = []
    # ---- 1a Replication
    for seed in (101, 102):
        tr, err = repl.record_walk(seed, 3, 2, 40, True)
        if tr is None:
            bad.append("walk failed: %s" % err); continue
        base = repl.validate(tr, 3, 2)
        entry = {"seed": seed, "events": base["events"], "accepted": base["accepted"], "corrupted": []}
        if not base["accepted"]:
            bad.append("uncorrupted walk %d not accepted" % seed)
        events = repl.load_trace(tr)
        for what, ev in corruptions_repl(events, rnd):
            p = tr + ".corrupt.ndjson"
            with open(p, "w") as f:
                for e in ev:
                    f.write(json.dumps(e) + "\n")
            r = repl.validate(p, 3, 2)
            entry["corrupted"].append({"what": what, "accepted": r["accepted"], "first_unmatched": r["first_unmatched"], "violated": r["violated"]})
            if r["accepted"]:
                bad.append("corrupted Replication trace accepted: " + what)
        res["replication"].append(entry)
        vlib.log("[demo] Replication seed %d: accepted=%s, %d/%d corrupted traces rejected" % (seed, base["accepted"], sum(1 for c in entry["corrupted"] if not c["accepted"]), len(entry["corrupted"])))
    # ---- 1b Ingest
    seed, tr, base = prop_c10.walk(5001, 3, 1, 1, 60, 6)
    if tr is None:
        bad.append("ingest walk failed")
    else:
        entry = {"seed": seed, "events": base["events"], "accepted": base["accepted"], "corrupted": []}
        if not base["accepted"]:
            bad.append("uncorrupted ingest run not accepted")
        events = [json.loads(l) for l in open(tr)]
        kinds = sorted({e.get("ev") or e.get("op") or "?" for e in events})
        entry["event_kinds"] = kinds
        def pick(pred):
            c = [i for i, e in enumerate(events) if pred(e)]
            return rnd.choice(c) if c else None
        plans = [("queue_len of a queued recv + 1", lambda e: e.get("ev") == "recv" and e.get("decision") == "queued", lambda e: e.__setitem__("queue_len", e["queue_len"] + 1)),
                 ("a queued recv removed", lambda e: e.get("ev") == "recv" and e.get("decision") == "queued", None),
                 ("inflight of a spawn + 1", lambda e: e.get("ev") == "spawn", lambda e: e.__setitem__("inflight", e["inflight"] + 1)),
                 ("a spawn removed", lambda e: e.get("ev") == "spawn", None),
                 ("a 'seen' decision reported as 'known'", lambda e: e.get("ev") == "recv" and e.get("decision") == "seen", lambda e: e.__setitem__("decision", "known")),
                 ("a 'known' decision reported as 'queued'", lambda e: e.get("ev") == "recv" and e.get("decision") == "known", lambda e: e.__setitem__("decision", "queued")),
                 ("a commit removed", lambda e: e.get("ev") == "commit", None)]
        for (label, pred, mut) in plans:
            ev = copy.deepcopy(events)
            i = pick(pred)
            if i is None:
                continue
            if mut is None:
                del ev[i]
            else:
                mut(ev[i])
            what = "event %d: %s" % (i, label)
            p = tr + ".corrupt.ndjson"
            with open(p, "w") as f:
                for x in ev:
                    f.write(json.dumps(x) + "\n")
            c = prop_c10.cfg("TraceSpec", "{1, 2, 3}", 3, 1, 5, post=True, maxseq=5)
            r = vlib.run_tlc("TraceIngest.tla", c, workers=1, timeout=900, dfs=True, heap="3g", env_extra={"TRACE": p}, dump_trace=False)
            rejected = bool(r.violated) or ("first unmatched event" in r.output) or not r.ok
            entry["corrupted"].append({"what": what, "rejected": rejected})
            if not rejected:
                bad.append("corrupted Ingest trace accepted: " + what)
        res["ingest"].append(entry)
        vlib.log("[demo] Ingest: accepted=%s, %d/%d corrupted traces rejected" % (base["accepted"], sum(1 for c in entry["corrupted"] if c["rejected"]), len(entry["corrupted"])))
    # ---- 2 constant flips
    def flip(name, module, cfgpath, expect, workers=6, **kw):
        r = vlib.run_tlc(module, cfgpath, workers=workers, timeout=1800, **kw)
        ok = bool(r.violated)
        res["constant_flips"].append({"flip": name, "violated": r.violated, "expected_one_of": expect, "states": r.distinct})
        vlib.log("[demo] %s: violated=%s" % (name, r.violated))
        if not ok or (expect and r.violated not in expect):
            bad.append("%s: expected a violation of %s, got %s" % (name, expect, r.violated))
    flip("Ingest FixS3=FALSE (as found)", "Ingest.tla", prop_c10.cfg("Spec", "{1}", 2, 2, 2, fix_s3=False), ["C10_CacheSoundSeqs", "C10_CacheSoundEmpty"])
    c = os.path.join(vlib.scratch(), "demo_sc.cfg")
    open(c, "w").write("SPECIFICATION Spec\nCONSTANTS\n MaxId = 3\n Cap = 2\n QCap = 2\n From = 0\n FixS6 = FALSE\nINVARIANTS C12_Contiguous C12_StopsAfterError\n")
    flip("SubCatchUp FixS6=FALSE (as found)", "SubCatchUp.tla", c, ["C12_Contiguous", "C12_StopsAfterError"])
    for fl in ("FixDownNewer", "FixIndex", "FixRingReset"):
        flags = dict(prop_c18.FLAGS); flags[fl] = False
        c = os.path.join(vlib.scratch(), "demo_m_%s.cfg" % fl)
        open(c, "w").write(prop_c18.cfg_text("Spec", "{1, 2}", "{3, 40, 1000}", 2, flags=flags))
        flip("Members %s=FALSE (as found)" % fl, "MCMembers.tla", c, None)
    c = os.path.join(vlib.scratch(), "demo_sl.cfg")
    open(c, "w").write("SPECIFICATION Spec\nCONSTANTS\n MaxChanges = 3\n GuardedDrop = TRUE\n RestoreMarksRunning = FALSE\nINVARIANTS C13_CompletedIsCurrent C13_ServedIsCurrent\nPROPERTIES C13_RestoreOnlyCompleted C13_UncleanRemoved\n")
    flip("SubLifecycle RestoreMarksRunning=FALSE", "SubLifecycle.tla", c, None)
    c = os.path.join(vlib.scratch(), "demo_ma.cfg")
    open(c, "w").write('SPECIFICATION Spec\nCONSTANTS\n Ids = {1, 2}\n Vals = {1, 2}\n Shape = "plain"\n MaxTx = 3\n NullSafe = FALSE\nINVARIANTS C11_View C11_Keys\n')
    flip("Matcher NullSafe=FALSE", "Matcher.tla", c, ["C11_View"])
    c = os.path.join(vlib.scratch(), "demo_se.cfg")
    open(c, "w").write("SPECIFICATION Spec\nCONSTANTS\n ColumnFirst = FALSE\nINVARIANTS C01_RelayConverged C01_ClientConverged C05_NothingDropped\n")
    flip("Sentinel ColumnFirst=FALSE (as found)", "Sentinel.tla", c, ["C05_NothingDropped", "C01_ClientConverged"])
    c = os.path.join(vlib.scratch(), "demo_cl.cfg")
    open(c, "w").write("SPECIFICATION Spec\nCONSTANTS\n Nodes = {1, 2}\n Ids = {0, 1}\n Dynamic = TRUE\n DynamicSend = FALSE\nINVARIANTS C16_NoCrossApply C16_NoCrossData C16_SyncRejected\n")
    flip("Cluster DynamicSend=FALSE", "Cluster.tla", c, ["C16_NoCrossData"])
    c = os.path.join(vlib.scratch(), "demo_cl2.cfg")
    open(c, "w").write("SPECIFICATION Spec\nCONSTANTS\n Nodes = {1, 2}\n Ids = {0, 1}\n Dynamic = FALSE\n DynamicSend = TRUE\nINVARIANTS C16_NoCrossApply C16_NoCrossData C16_SyncRejected\n")
    flip("Cluster Dynamic=FALSE (as found)", "Cluster.tla", c, ["C16_NoCrossApply", "C16_NoCrossData"])
    import prop_c10 as _p10
    c = _p10.cfg("Spec", "{1}", 2, 2, 2).replace(".cfg", "_fail.cfg")
    open(c, "w").write(open(_p10.cfg("Spec", "{1}", 2, 2, 2, may_fail=True, fix_s15=False)).read())
    flip("Ingest FixS15=FALSE with ApplyMayFail=TRUE (S15 as found)", "Ingest.tla", c, ["C10_CacheSoundSeqs", "C10_CacheSoundEmpty"])
    c = prop_c02.write_cfg("demo_bk", prop_c02.CONFIGS_QUICK["B"], "Spec", fullstart=1)
    flip("Bookkeeping FullStart=1 (as found)", "MCBookkeeping.tla", c, None)
    res["wall_s"] = round(time.time() - t0, 1)
    res["unexpected"] = bad
    json.dump(res, open("/verif/binding_demo.json", "w"), indent=1)
    vlib.log("[demo] %s (%.0fs)" % ("all demonstrations behaved as expected" if not bad else "UNEXPECTED: %s" % bad, time.time() - t0))
    vlib.cleanup()
    sys.exit(0 if not bad else 2)


if __name__ == "__main__":
    main()
