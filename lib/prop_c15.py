"""C15 — schema changes are additive, atomic, idempotent and survive restart.

Decided by: specs/Schema.tla (Accept = constrain + diff rules, Merge; Additive as an action property checked by TLC over
all sequences of submissions from the catalogue) + a replay of every edge of the model's state graph through the real
api_v1_db_schema on real agents: status, database schema (PRAGMA table_info / index_list), rows, __corro_schema and the
in-memory schema are compared with the model after every submission, and after a restart on the same files."""
import json, os, time, random
from concurrent.futures import ThreadPoolExecutor
import vlib, schema_cat

PID = "C15"
LEVEL = "model_checking"


def canon_table(t):
    return {"name": t["name"], "pk": sorted(t["pk"]), "cols": sorted(({"c": c["c"], "ty": c["ty"], "nn": bool(c["nn"]), "dflt": c["dflt"]} for c in t["cols"]), key=lambda c: c["c"]),
            "idx": sorted(({"n": i["n"], "uniq": bool(i["uniq"])} for i in t["idx"]), key=lambda i: i["n"])}


def canon_db(db):
    return sorted((canon_table(t) for t in db), key=lambda t: t["name"])


def run(tier):
    t0 = time.time()
    violations, mismatch = [], []
    cat = schema_cat.CATALOGUE
    mod = os.path.join(vlib.SPECS, "MCSchema.tla")
    open(mod, "w").write("---- MODULE MCSchema ----\nEXTENDS Schema, Json\nCat == " + schema_cat.tla_catalogue(cat) + "\n"
                         "Emit(i) == PrintT(\"EDGE \" \\o ToJson([from |-> db, op |-> i, acc |-> Accept(Catalogue[i]), to |-> db']))\n"
                         "EdgeNext == \\E i \\in 1..Len(Catalogue) : Submit(i) /\\ Emit(i)\nEdgeSpec == Init /\\ [][EdgeNext]_vars\n"
                         "Bound == nsub <= %d\nDbView == db\n====\n" % (3 if tier == "quick" else 5))
    try:
        c1 = os.path.join(vlib.scratch(), "schema.cfg")
        open(c1, "w").write("SPECIFICATION Spec\nCONSTANTS\n Catalogue <- Cat\nCONSTRAINT Bound\nPROPERTIES C15_Additive\n")
        r = vlib.run_tlc("MCSchema.tla", c1, workers=6, timeout=1500)
        if r.error:
            raise vlib.ToolError("TLC Schema: %s\n%s" % (r.error, r.output[-1500:]))
        if r.violated:
            mismatch.append("Schema.tla violates %s" % r.violated)
        c2 = os.path.join(vlib.scratch(), "schema_edge.cfg")
        open(c2, "w").write("SPECIFICATION EdgeSpec\nCONSTANTS\n Catalogue <- Cat\nVIEW DbView\n")
        er = vlib.run_tlc("MCSchema.tla", c2, workers=6, timeout=1500, dump_trace=False, keep_lines=lambda l: l.startswith("EDGE ") or l.startswith('"EDGE '))
        if not er.ok:
            raise vlib.ToolError("edge export failed: %s\n%s" % (er.error, er.output[-1500:]))
    finally:
        os.remove(mod)
    vlib.log("[C15] TLC Schema: %d distinct states (sequence bound), %d schema states in the edge graph" % (r.distinct, er.distinct))
    states, edges, acc = {}, {}, {}
    for line in er.lines:
        if line.startswith('"'):
            line = json.loads(line)
        d = json.loads(line[5:])
        a, b = canon_db(d["from"]), canon_db(d["to"])
        ka, kb = json.dumps(a, sort_keys=True), json.dumps(b, sort_keys=True)
        states[ka] = a; states[kb] = b
        edges[(ka, str(d["op"]))] = kb
        acc[(ka, str(d["op"]))] = d["acc"]
    init = json.dumps([], sort_keys=True)
    workers = 8
    walks = []
    for w, ws in enumerate(vlib.cover_walks(init, edges, workers)):
        for j, walk in enumerate(ws):
            cur = init
            steps = []
            for (op, b) in walk:
                i = int(op)
                steps.append({"i": i, "sql": schema_cat.sql_of(cat[i - 1]), "expect": states[b], "accepted": acc[(cur, op)], "before": states[cur]})
                cur = b
            walks.append({"id": "%d-%d" % (w, j), "shard": w, "steps": steps})
    files = []
    for w in range(workers):
        fn = os.path.join(vlib.scratch(), "schema.%d.ndjson" % w)
        with open(fn, "w") as f:
            for wk in walks:
                if wk["shard"] == w:
                    f.write(json.dumps({"id": wk["id"], "steps": [{"i": s["i"], "sql": s["sql"]} for s in wk["steps"]]}) + "\n")
        files.append(fn)
    results = {}
    with ThreadPoolExecutor(max_workers=workers) as ex:
        for p in ex.map(lambda fn: vlib.run_vh(["schema-replay", fn], timeout=2400), files):
            if p.returncode != 0:
                raise vlib.ToolError("vh schema-replay failed: %s" % p.stderr[-1500:])
            for line in p.stdout.splitlines():
                d = json.loads(line)
                results[d["id"]] = d
    nsteps = 0

    def view(state):
        return sorted(({"name": t["name"], "pk": sorted(t["pk"]), "cols": sorted(t["cols"], key=lambda c: c["c"]), "idx": sorted(t["idx"], key=lambda i: i["n"])} for t in state["tables"]), key=lambda t: t["name"])
    for wk in walks:
        got = results.get(wk["id"])
        if got is None:
            raise vlib.ToolError("no result for walk %s" % wk["id"])
        prev_rows = {}
        last = None
        for s, g in zip(wk["steps"], got["steps"]):
            nsteps += 1
            what = schema_cat.CATALOGUE[s["i"] - 1]["what"]
            real = view(g["state"])
            why = None
            if (g["status"] == 200) != bool(s["accepted"]):
                # judge by the property: a wrongly accepted forbidden edit shows up as a non-additive change below;
                # a wrongly rejected allowed edit is a model mismatch
                if g["status"] == 200 and real != s["before"] and not all(any(t2["name"] == t["name"] and t2["pk"] == t["pk"] and all(c in t2["cols"] for c in t["cols"]) for t2 in real) for t in s["before"]):
                    why = "submission %r was accepted and dropped / changed an existing table, column or primary key" % what
                elif g["status"] != 200 and real != s["before"]:
                    why = "submission %r was rejected (%d) but left the database schema changed" % (what, g["status"])
                else:
                    if len(mismatch) < 4:
                        mismatch.append("submission %r: the code answered %d, Schema.tla says accepted=%s" % (what, g["status"], s["accepted"]))
            if why is None and real != s["expect"]:
                if g["status"] != 200:
                    why = "rejected submission %r left the schema changed: %s" % (what, json.dumps(real)[:300])
                elif len(mismatch) < 4:
                    mismatch.append("after %r the real schema differs from Schema.tla: %s vs %s" % (what, json.dumps(real)[:200], json.dumps(s["expect"])[:200]))
            names = sorted(t["name"] for t in real)
            if why is None and sorted(g["state"]["corro_schema"]) != names:
                why = "__corro_schema lists %s but the database has tables %s after %r" % (g["state"]["corro_schema"], names, what)
            if why is None and {n: cols for n, cols in g["state"]["mem"].items()} != {t["name"]: sorted(c["c"] for c in t["cols"]) for t in real}:
                why = "the schema the node works with (%s) differs from the database schema after %r" % (json.dumps(g["state"]["mem"]), what)
            db_idx = {t["name"]: sorted(i["n"] for i in t["idx"]) for t in g["state"]["tables"]}
            if why is None and {n: v for n, v in g["state"].get("mem_idx", {}).items() if v} != {n: v for n, v in db_idx.items() if v}:
                why = "the indexes the node works with (%s) differ from the indexes of the database (%s) after %r" % (json.dumps(g["state"].get("mem_idx")), json.dumps(db_idx), what)
            if why is None and {n: v for n, v in g["state"].get("corro_idx", {}).items() if v} != {n: v for n, v in db_idx.items() if v}:
                why = "the persisted schema record lists the indexes %s, the database has %s after %r (the record is what a restart loads)" % (json.dumps(g["state"].get("corro_idx")), json.dumps(db_idx), what)
            for t in g["state"]["tables"]:
                if prev_rows.get(t["name"], 0) > t["rows"]:
                    why = why or "rows of table %s were lost by submission %r" % (t["name"], what)
                prev_rows[t["name"]] = t["rows"]
            if why:
                rp = vlib.write_replay(PID, "walk", {"why": why, "walk": [x["i"] for x in wk["steps"]], "step": s["i"], "real": g})
                if len(violations) < 6:
                    violations.append((why, rp))
                break
            last = g["state"]
        else:
            if last is not None:
                ar = got["after_restart"]
                if view(ar) != view(last) or ar["mem"] != last["mem"] or ar["corro_schema"] != last["corro_schema"] or ar.get("mem_idx") != last.get("mem_idx") or ar.get("corro_idx") != last.get("corro_idx"):
                    rp = vlib.write_replay(PID, "restart", {"walk": [x["i"] for x in wk["steps"]], "before": last, "after": ar})
                    if len(violations) < 6:
                        violations.append(("after a restart the node works with a different schema than before", rp))
    rnd = random.Random(vlib.seed())
    cov = {"states": r.distinct, "transitions": r.generated, "traces_validated_against_impl": len(walks),
           "samples": [{"submissions": [schema_cat.CATALOGUE[s["i"] - 1]["what"] for s in w["steps"][:4]]} for w in rnd.sample(walks, min(3, len(walks)))],
           "edges": len(edges), "replayed_steps": nsteps, "evaluations": nsteps, "distinct_nontrivial": sum(1 for (a, o), b in edges.items() if a != b), "exhaustive": True,
           "rule": "every (schema state, submission) edge reachable with the %d-entry catalogue (new tables, added columns with/without default, dropped column, changed type / default / nullability, changed primary key, index, unique index, foreign key, syntax errors at statement 1/2, multi-statement submissions mixing valid and forbidden edits), each table holding a row" % len(cat)}
    vlib.write_evidence(PID, tier, LEVEL, cov, time.time() - t0, violations=len(violations), assumptions=[
        "finite catalogue of submission shapes over three tables; SQL generated from the abstract definitions in lib/schema_cat.py",
        "restart = setup() + init_schema on the same files"])
    return {"violations": violations, "mismatch": mismatch}


def replay(path):
    raise vlib.ToolError("re-run ./check C15 (walks are regenerated from the specification)")
