"""C18 — the membership view follows the newest identity of each peer.

Decided by: specs/Members.tla (TLC exhaustive over all admissible notification / RTT sequences within the
bounds, C18 formulas as invariants with a ghost fold over the notification history) + replay of every edge of
the model graph on the real `Members` (add_member / remove_member / add_rtt / ring0)."""
import json, os, time, random
from concurrent.futures import ThreadPoolExecutor
import vlib

PID = "C18"
LEVEL = "model_checking"
# the code after the three `fix:` commits (S4a, S4b, S4c); the tree as first found had all three FALSE
FLAGS = {"FixDownNewer": True, "FixIndex": True, "FixRingReset": True}
ADDR_OF = {(1, 1): 1, (1, 2): 2, (1, 3): 1, (2, 1): 3, (2, 2): 3, (2, 3): 4}
CLUSTER_OF = {(1, 1): 0, (1, 2): 0, (1, 3): 1, (2, 1): 0, (2, 2): 1, (2, 3): 1}
CLUSTERS = [0, 1]
BUCKETS = [(0, 6), (6, 15), (15, 50), (50, 100), (100, 200), (200, 300)]
INVS = "C18_View C18_Index C18_Ring C18_Ring0"


def cfg_text(spec, rtt_addrs, rtt_vals, max_samples, invs=True, flags=None):
    fl = flags or FLAGS
    s = ("SPECIFICATION %s\nCONSTANTS\n Peers <- P\n Ts <- T\n Addrs <- A\n Clusters <- C\n AddrOf <- MCAddrOf\n ClusterOf <- MCClusterOf\n"
         " RttAddrs = %s\n RttVals = %s\n MaxSamples = %d\n" % (spec, rtt_addrs, rtt_vals, max_samples))
    for k, v in fl.items():
        s += " %s = %s\n" % (k, "TRUE" if v else "FALSE")
    if invs:
        s += "INVARIANTS %s\n" % INVS
    return s


def canon(st):
    return {
        "states": sorted(st["states"], key=lambda m: m["p"]),
        "byAddr": sorted(st["byAddr"], key=lambda m: m["a"]),
        "rtts": sorted([r for r in st["rtts"] if r["s"]], key=lambda m: m["a"]),
        "ring0": sorted([{"c": r["c"], "addrs": sorted(r["addrs"])} for r in st["ring0"]], key=lambda m: m["c"]),
    }


def bucket(avg):
    for i, (lo, hi) in enumerate(BUCKETS):
        if lo <= avg < hi:
            return i
    return 9


def judge(st, ghost):
    """C18's formulas on a real projected state + ghost (newest, lastKind per peer)."""
    failed = []
    members = {m["p"]: m for m in st["states"]}
    rtts = {r["a"]: r["s"] for r in st["rtts"]}
    newest = ghost["newest"]; last = ghost["lastKind"]
    view = True
    for p in (1, 2):
        present = newest[p - 1] > 0 and last[p - 1] == "up"
        if (p in members) != present:
            view = False
        elif present:
            m = members[p]
            if m["ts"] != newest[p - 1] or m["addr"] != ADDR_OF[(p, newest[p - 1])] or m["cluster"] != CLUSTER_OF[(p, newest[p - 1])]:
                view = False
    if not view:
        failed.append("C18_View")
    idx = {b["a"]: b["p"] for b in st["byAddr"]}
    if set(idx) != {m["addr"] for m in members.values()} or any(p not in members or members[p]["addr"] != a for a, p in idx.items()):
        failed.append("C18_Index")
    ring_ok = True
    for m in members.values():
        s = rtts.get(m["addr"], [])
        exp = 9 if not s else bucket(sum(s) // len(s))
        if m["ring"] != exp:
            ring_ok = False
    if not ring_ok:
        failed.append("C18_Ring")
    for r in st["ring0"]:
        exp = sorted(m["addr"] for m in members.values() if m["cluster"] == r["c"] and rtts.get(m["addr"]) and bucket(sum(rtts[m["addr"]]) // len(rtts[m["addr"]])) == 0)
        if sorted(r["addrs"]) != exp:
            failed.append("C18_Ring0")
            break
    return failed


def replay_paths(paths, nproc=8):
    if not paths:
        return {"paths": 0, "steps": 0, "mismatches": 0}, []
    shards = {}
    for i, p in enumerate(paths):
        shards.setdefault(p.get("shard", i) % nproc, []).append(p)
    files = []
    for k, sh in shards.items():
        fn = os.path.join(vlib.scratch(), "members.%d.ndjson" % k)
        with open(fn, "w") as f:
            for p in sh:
                f.write(json.dumps(p) + "\n")
        files.append(fn)
    tot = {"paths": 0, "steps": 0, "mismatches": 0}
    mism = []
    with ThreadPoolExecutor(max_workers=len(files)) as ex:
        for p in ex.map(lambda fn: vlib.run_vh(["replay-members", fn], timeout=1800), files):
            if p.returncode != 0:
                raise vlib.ToolError("vh replay-members failed: %s" % p.stderr[-2000:])
            for line in p.stdout.splitlines():
                d = json.loads(line)
                if "summary" in d:
                    for k in tot:
                        tot[k] += d["summary"][k]
                else:
                    mism.append(d["mismatch"])
    return tot, mism


def fn_items(v):
    """a TLC function value dumped as JSON: list (domain 1..n) or dict"""
    if isinstance(v, list):
        return [(i + 1, x) for i, x in enumerate(v)]
    return [(int(k), x) for k, x in v.items()]


def ce_to_path(r):
    ops, states, ghosts = [], [], []
    for (name, ctx, st) in r.ce:
        if name in ("Up", "Down"):
            p, t = ctx["p"], ctx["t"]
            ops.append({"op": name.lower(), "p": p, "t": t, "addr": ADDR_OF[(p, t)], "cluster": CLUSTER_OF[(p, t)]})
        elif name == "Rtt":
            ops.append({"op": "rtt", "a": ctx["a"], "ms": ctx["ms"]})
        else:
            raise vlib.ToolError("unknown action %s" % name)
        members = [{"p": p, "addr": m["addr"], "ts": m["ts"], "cluster": m["cluster"], "ring": m["ring"]} for p, m in fn_items(st["states"])]
        by = [{"a": a, "p": p} for a, p in fn_items(st["byAddr"])]
        rt = [{"a": a, "s": s} for a, s in fn_items(st["rtts"]) if s]
        ring0 = [{"c": c, "addrs": sorted(m["addr"] for m in members if m["cluster"] == c and m["ring"] == 0)} for c in CLUSTERS]
        states.append(canon({"states": members, "byAddr": by, "rtts": rt, "ring0": ring0}))
        ghosts.append({"newest": st["newest"], "lastKind": st["lastKind"]})
    return {"id": "ce", "clusters": CLUSTERS, "ops": ops, "states": states, "ghosts": ghosts}


def run(tier):
    t0 = time.time()
    violations, mismatch, known = [], [], []
    if tier == "quick":
        bounds = ("{1, 2}", "{3, 40, 1000}", 2)
    else:
        bounds = ("{1, 2}", "{3, 40, 1000}", 3)   # three addresses receiving samples give 10.8 M states and 150 M edges: not replayable
    cfgp = os.path.join(vlib.scratch(), "Members.cfg")
    open(cfgp, "w").write(cfg_text("Spec", *bounds))
    r = vlib.run_tlc("MCMembers.tla", cfgp, workers=8, timeout=2400, coverage=(tier == "thorough"))
    if r.error:
        raise vlib.ToolError("TLC Members: %s\n%s" % (r.error, r.output[-1500:]))
    vlib.log("[C18] TLC Members: %d generated, %d distinct, violated=%s (%.0fs)" % (r.generated, r.distinct, r.violated, r.wall))
    cov = {"states": r.distinct, "transitions": r.generated, "traces_validated_against_impl": 0, "samples": [], "exhaustive": True,
           "bounds": {"peers": 2, "identity_timestamps": 3, "addresses": 4, "clusters": 2, "rtt_addrs": bounds[0], "rtt_values_ms": bounds[1], "max_samples_per_addr": bounds[2]}}
    if r.violated:
        path = ce_to_path(r)
        tot, mism = replay_paths([path], nproc=1)
        rp = vlib.write_replay(PID, "model-" + r.violated, {"invariant": r.violated, "path": path, "real_code_follows": not mism})
        if mism:
            mismatch.append("Members.tla violates %s but the real code does not follow the counter-example (%s)" % (r.violated, rp))
        else:
            violations.append(("model+code violate %s: %s" % (r.violated, json.dumps(path["ops"])), rp))
    else:
        cfge = os.path.join(vlib.scratch(), "MembersEdge.cfg")
        open(cfge, "w").write(cfg_text("EdgeSpec", *bounds, invs=False))
        er = vlib.run_tlc("MCMembers.tla", cfge, workers=8, timeout=2400, dump_trace=False,
                          keep_lines=lambda l: l.startswith("EDGE ") or l.startswith('"EDGE '))
        if not er.ok:
            raise vlib.ToolError("edge export failed: %s" % er.error)
        states, edges = {}, {}
        for line in er.lines:
            if line.startswith('"'):
                line = json.loads(line)
            d = json.loads(line[5:])
            a, b = canon(d["from"]), canon(d["to"])
            # the ghost is part of the model state (same concrete state, different history)
            ka = json.dumps([a, d["fromGhost"]], sort_keys=True); kb = json.dumps([b, d["toGhost"]], sort_keys=True)
            states[ka] = (a, d["fromGhost"]); states[kb] = (b, d["toGhost"])
            edges[(ka, json.dumps(d["op"], sort_keys=True))] = kb
        er.lines = []
        init = [k for k, (s, g) in states.items() if not s["states"] and not s["rtts"] and g["newest"] == [0, 0] and g["maxDown"] == [0, 0]][0]
        paths = []
        for w, walks in enumerate(vlib.cover_walks(init, edges, 8)):
            for j, walk in enumerate(walks):
                paths.append({"id": "%d-%d" % (w, j), "shard": w, "clusters": CLUSTERS, "ops": [json.loads(o) for (o, b) in walk],
                              "states": [states[b][0] for (o, b) in walk], "ghosts": [states[b][1] for (o, b) in walk]})
        tot, mism = replay_paths(paths, nproc=8)
        vlib.log("[C18] replayed %d edges in %d walks (%d steps), %d mismatches" % (len(edges), tot["paths"], tot["steps"], tot["mismatches"]))
        cov["traces_validated_against_impl"] = tot["paths"]
        cov["edges"] = len(edges)
        cov["edges_changing_state"] = sum(1 for (a, o), b in edges.items() if a != b)
        cov["replayed_steps"] = tot["steps"]
        rnd = random.Random(vlib.seed())
        cov["samples"] = [{"ops": p["ops"][:8], "state_after": p["states"][min(7, len(p["states"]) - 1)]} for p in rnd.sample(paths, min(3, len(paths)))]
        byid = {p["id"]: p for p in paths}
        for m in mism[:50]:
            ghost = byid[m["id"]]["ghosts"][m["step"]]
            failed = ["panic"] if m.get("panic") else judge(m["got"], ghost)
            if failed:
                if len(violations) < 5:
                    rp = vlib.write_replay(PID, "replay", {"failed": failed, "mismatch": m, "ghost": ghost})
                    violations.append(("real Members violates %s after %s" % (",".join(failed), json.dumps(m["ops"])), rp))
            elif len(mismatch) < 5:
                rp = vlib.write_replay(PID, "mismatch", {"mismatch": m})
                mismatch.append("real Members differs from Members.tla but C18's formulas hold (%s)" % rp)
    cov["evaluations"] = cov.get("edges", 0) or r.generated
    cov["distinct_nontrivial"] = cov.get("edges_changing_state", 0) or r.distinct
    cov["rule"] = "every (state, notification or RTT sample) edge of Members.tla; notifications: up/down for 2 peers x 3 identity timestamps respecting 'an up never carries an identity older than one reported down'"
    vlib.write_evidence(PID, tier, LEVEL, cov, time.time() - t0, violations=len(violations), assumptions=[
        "same (id, ts) => same address and cluster (stated SWIM constraint); distinct peers never share an address",
        "RTT buffers hold fewer samples than the real 20-slot ring buffer (overflow not exercised)",
        "model flags: %s" % json.dumps(FLAGS)])
    return {"violations": violations, "mismatch": mismatch, "known": known}


def replay(path):
    d = json.load(open(path))
    p = d.get("path")
    if p:
        tot, mism = replay_paths([p], nproc=1)
        return {"violations": [("counter-example reproduced on the real code", path)] if not mism else []}
    m = d["mismatch"]
    p = {"id": "r", "clusters": CLUSTERS, "ops": m["ops"], "states": [m["expected"]] * len(m["ops"])}
    raise vlib.ToolError("re-run ./check C18: walks are regenerated from the specification")
