"""C04 — sync requests ask for everything the peer can give and nothing it cannot.

Decided by: specs/SyncNeeds.tla — TLC enumerates every pair of well-formed advertised states within the
bounds and checks the C04 formulas on the transcribed algorithm; every enumerated pair is then run
through the real compute_available_needs, whose (normalised) output must equal the specification's and
satisfy the same formulas evaluated directly in lib/prop_c04.py."""
import json, os, time, random
import vlib
from prop_c08 import run_cases, write_cfg

PID = "C04"
LEVEL = "model_checking"
INVS = "C04_CompleteFull C04_CompletePartial C04_CompleteBothPartial C04_WithinHead C04_NotSelf C04_SeqSound"


def judge(case, got):
    """C04's formulas on the real output. Returns reason or None."""
    ours, theirs, is_self = case["ours"], case["theirs"], case["isSelf"]
    full = set(got["full"])
    seqreq = {p["v"]: set(p["seqs"]) for p in got["partial"]}
    if got.get("other_actors"):
        return "requests for an actor the peer did not advertise"
    if is_self:
        return None if not full and not seqreq else "asks a peer for versions it authored itself"
    tp = {p["v"]: set(p["missing"]) for p in theirs["partial"]}
    op = {p["v"]: set(p["missing"]) for p in ours["partial"]}
    their_have = set(range(1, theirs["head"] + 1)) - set(theirs["need"]) - set(tp)
    for v in their_have:
        if (v > ours["head"] or v in ours["need"]) and v not in full:
            return "version %d held by the peer and lacked is not requested" % v
    for v, miss in op.items():
        if v in their_have and not miss <= seqreq.get(v, set()):
            return "missing seqs of partial version %d not requested from a holder" % v
        if v in tp and not (miss - tp[v]) <= seqreq.get(v, set()):
            return "seqs of version %d the peer has buffered are not requested" % v
    for v in list(full) + list(seqreq):
        if v < 1 or v > theirs["head"]:
            return "request beyond the peer's advertised head (version %d)" % v
    for v, s in seqreq.items():
        if v not in op or not s <= op[v]:
            return "partial request for seqs the node does not miss (version %d)" % v
        if v in tp and s & tp[v]:
            return "partial request for seqs the peer misses itself (version %d)" % v
        if v in theirs["need"]:
            return "partial request for a version the peer lists as needed (%d)" % v
    return None


def run(tier):
    t0 = time.time()
    violations, mismatch = [], []
    configs = [(4, 2, 1)] if tier == "quick" else [(4, 2, 1), (4, 1, 4), (3, 2, 2), (5, 1, 1)]
    cov = {"states": 0, "transitions": 0, "traces_validated_against_impl": 0, "samples": [], "exhaustive": True, "configs": []}
    nontrivial = 0
    for (mh, ms, mp) in configs:
        cfg = write_cfg("SyncNeeds_%d_%d_%d.cfg" % (mh, ms, mp),
                        "SPECIFICATION Spec\nCONSTANTS\n MaxH = %d\n MaxS = %d\n MaxP = %d\nINVARIANTS %s Export\n" % (mh, ms, mp, INVS))
        r = vlib.run_tlc("MCSyncNeeds.tla", cfg, workers=8, timeout=2400,
                         keep_lines=lambda l: l.startswith("REPLAY ") or l.startswith('"REPLAY '), heap="12g")
        if r.error:
            raise vlib.ToolError("TLC SyncNeeds: %s\n%s" % (r.error, r.output[-1500:]))
        vlib.log("[C04] TLC (MaxH=%d MaxS=%d MaxP=%d): %d pairs, violated=%s (%.0fs)" % (mh, ms, mp, r.distinct, r.violated, r.wall))
        cov["states"] += r.distinct; cov["transitions"] += r.generated
        cov["configs"].append({"MaxH": mh, "MaxS": ms, "MaxP": mp, "pairs": r.distinct})
        if r.violated:
            rp = vlib.write_replay(PID, "model-" + r.violated, {"invariant": r.violated, "trace": r.trace[:60]})
            mismatch.append("SyncNeeds.tla violates %s (%s); the replay below decides for the code" % (r.violated, rp))
        cases = []
        for i, line in enumerate(r.lines):
            if line.startswith('"'):
                line = json.loads(line)
            d = json.loads(line[7:]); d["id"] = i
            cases.append(d)
        r.lines = []
        res = run_cases("replay-syncneeds", cases, nproc=12)
        for c in cases:
            got = res[c["id"]]
            exp_full = sorted(c["out"]["full"])
            exp_part = sorted(([p["v"], sorted(p["seqs"])] for p in c["out"]["partial"]))
            if exp_full or exp_part:
                nontrivial += 1
            why = "panic" if got.get("panic") else judge(c, got)
            if why:
                if len(violations) < 5:
                    rp = vlib.write_replay(PID, "needs", {"case": c, "real": got, "why": why})
                    violations.append((why, rp))
                continue
            got_part = sorted(([p["v"], sorted(p["seqs"])] for p in got["partial"]))
            if sorted(got["full"]) != exp_full or got_part != exp_part:
                if len(mismatch) < 5:
                    rp = vlib.write_replay(PID, "mismatch", {"case": c, "real": got})
                    mismatch.append("real compute_available_needs differs from SyncNeeds.tla but satisfies C04's formulas (%s)" % rp)
        cov["traces_validated_against_impl"] += len(cases)
        if not cov["samples"]:
            rnd = random.Random(vlib.seed())
            nt = [c for c in cases if c["out"]["partial"]]
            cov["samples"] = rnd.sample(nt, min(3, len(nt)))
    cov["evaluations"] = cov["traces_validated_against_impl"]
    cov["distinct_nontrivial"] = nontrivial
    cov["rule"] = "every pair of well-formed advertised states for one origin actor (heads 0..MaxH, any need set, <= MaxP partial versions with any non-empty missing-seq set over 0..MaxS) x {actor is self, actor is foreign}; non-trivial = non-empty request"
    vlib.write_evidence(PID, tier, LEVEL, cov, time.time() - t0, violations=len(violations), assumptions=[
        "compute_available_needs treats each actor of the peer's heads independently (read from the code), so one actor is the whole input space",
        "client-side request splitting/de-duplication in parallel_sync is not part of this check (see DESIGN.md)"])
    return {"violations": violations, "mismatch": mismatch}


def replay(path):
    d = json.load(open(path))
    c = d["case"]; c["id"] = 0
    got = run_cases("replay-syncneeds", [c], nproc=1)[0]
    why = "panic" if got.get("panic") else judge(c, got)
    return {"violations": [(why, path)] if why else []}
