"""C04 — sync requests ask for everything the peer can give and nothing it cannot.

Decided by: specs/SyncNeeds.tla — TLC enumerates every pair of well-formed advertised states within the
bounds and checks the C04 formulas on the transcribed algorithm; every enumerated pair is then run
through the real compute_available_needs, whose (normalised) output must equal the specification's and
satisfy the same formulas evaluated directly in lib/prop_c04.py."""
import json, os, time, random
import vlib
from concurrent.futures import ThreadPoolExecutor
from prop_c08 import run_cases, write_cfg

PID = "C04"
LEVEL = "model_checking"
INVS = "C04_CompleteFull C04_CompletePartial C04_CompleteBothPartial C04_WithinHead C04_NotSelf C04_SeqSound"


def judge(case, got):
    """C04's formulas on the real output. Returns reason or None."""
    ours, theirs, is_self = case["ours"], case["theirs"], case["isSelf"]
    full = set(got["full"])
    seqreq = {p["v"]: set(p["seqs"]) for p in got["partial"]}
    if got.get("other_actors"):
        return "requests for an actor the peer did not advertise"
    if is_self:
        return None if not full and not seqreq else "asks a peer for versions it authored itself"
    tp = {p["v"]: set(p["missing"]) for p in theirs["partial"]}
    op = {p["v"]: set(p["missing"]) for p in ours["partial"]}
    their_have = set(range(1, theirs["head"] + 1)) - set(theirs["need"]) - set(tp)
    for v in their_have:
        if (v > ours["head"] or v in ours["need"]) and v not in full:
            return "version %d held by the peer and lacked is not requested" % v
    for v, miss in op.items():
        if v in their_have and not miss <= seqreq.get(v, set()):
            return "missing seqs of partial version %d not requested from a holder" % v
        if v in tp and not (miss - tp[v]) <= seqreq.get(v, set()):
            return "seqs of version %d the peer has buffered are not requested" % v
    for v in list(full) + list(seqreq):
        if v < 1 or v > theirs["head"]:
            return "request beyond the peer's advertised head (version %d)" % v
    for v, s in seqreq.items():
        if v not in op or not s <= op[v]:
            return "partial request for seqs the node does not miss (version %d)" % v
        if v in tp and s & tp[v]:
            return "partial request for seqs the peer misses itself (version %d)" % v
        if v in theirs["need"]:
            return "partial request for a version the peer lists as needed (%d)" % v
    return None


def units(item):
    """a need as the set of units it asks for: (actor, version) or (actor, version, seq)"""
    a, n = item["actor"], item["need"]
    if n["k"] == "full":
        return {(a, v) for v in range(n["lo"], n["hi"] + 1)}
    if n["k"] == "partial":
        return {(a, n["v"], x) for (lo, hi) in n["seqs"] for x in range(lo, hi + 1)}
    return set()


def client_round(tier, violations, mismatch, cov):
    """the request scheduler of parallel_sync: SyncClient.tla + one real sync round of a client against two servers"""
    import re
    for drain in (1, 2):
        c = write_cfg("SyncClient_%d.cfg" % drain, "SPECIFICATION Spec\nCONSTANTS\n Servers <- S\n Queues <- Q2\n Drain = %d\n Dedupe = TRUE\n MaxLen = %d\n"
                      "INVARIANTS C04_OnlyAdvertised C04_NoDuplicate C04_AllRequested\nPROPERTIES C04_Terminates\n" % (drain, 2 if tier == "quick" else 3))
        r = vlib.run_tlc("MCSyncClient.tla", c, workers=6, timeout=1800, budget=900)
        if r.error:
            raise vlib.ToolError("TLC SyncClient: %s\n%s" % (r.error, r.output[-1200:]))
        vlib.log("[C04] TLC SyncClient Drain=%d: %d distinct, violated=%s" % (drain, r.distinct, r.violated))
        cov["states"] += r.distinct; cov["transitions"] += r.generated
        if r.violated:
            mismatch.append("SyncClient.tla violates %s" % r.violated)
    if tier == "thorough":
        c = write_cfg("SyncClient_3.cfg", "SPECIFICATION Spec\nCONSTANTS\n Servers <- S3\n Queues <- Q3\n Drain = 1\n Dedupe = TRUE\n MaxLen = 2\n"
                      "INVARIANTS C04_OnlyAdvertised C04_NoDuplicate C04_AllRequested\nPROPERTIES C04_Terminates\n")
        r = vlib.run_tlc("MCSyncClient.tla", c, workers=6, timeout=2400, budget=1200)
        if r.error:
            raise vlib.ToolError("TLC SyncClient (3 peers): %s" % r.error)
        cov["states"] += r.distinct; cov["transitions"] += r.generated
        if r.violated:
            mismatch.append("SyncClient.tla (3 peers) violates %s" % r.violated)
    jobs = [(vlib.seed() * 100 + i, 14) for i in range(3 if tier == "quick" else 12)] + [(vlib.seed() * 100 + 50 + i, 60) for i in range(1 if tier == "quick" else 4)]

    def one(job):
        seed, nv = job
        out = os.path.join(vlib.scratch(), "sc.%d.%d.json" % (seed, nv))
        p = vlib.run_vh(["sync-client-probe", str(seed), str(nv), out], timeout=600, env_extra={"VH_THREADS": "4"})
        if p.returncode != 0:
            return job, None, p.stderr[-600:]
        return job, json.load(open(out)), None
    with ThreadPoolExecutor(max_workers=4) as ex:
        res = list(ex.map(one, jobs))
    rounds = 0
    for (job, d, err) in res:
        if d is None:
            mismatch.append("sync-client-probe %s failed: %s" % (job, err[:300])); continue
        if not d["outcome"].startswith("ok"):
            if any(d["available"][s] for s in d["available"]):
                mismatch.append("sync round %s did not complete: %s" % (job, d["outcome"]))
            continue
        rounds += 1
        avail = {s: [units(x) for x in d["available"][s]] for s in d["available"]}
        asked = {s: [units(x) for x in d["requests"][s]] for s in d["requests"]}
        au = {s: set().union(*avail[s]) if avail[s] else set() for s in avail}
        ru = {s: set().union(*asked[s]) if asked[s] else set() for s in asked}
        fails = []
        for s in ru:
            extra = ru[s] - au[s]
            if extra:
                fails.append("server %s was asked for %s, which it does not advertise as held / the client does not lack" % (s, sorted(extra)[:4]))
            if sum(len(x) for x in asked[s]) != len(ru[s]):
                fails.append("server %s was asked twice for the same versions / sequences" % s)
        both = ru.get("A", set()) & ru.get("B", set())
        if both:
            fails.append("%s requested from both servers in one round" % sorted(both)[:4])
        missing = (au.get("A", set()) | au.get("B", set())) - (ru.get("A", set()) | ru.get("B", set()))
        if missing:
            fails.append("%s is available from a server and lacking at the client but was not requested from anybody" % sorted(missing)[:4])
        # not judged: what is still available after the round (a whole-version need may have gone to a peer that holds the
        # version only partially while the complete holder's need was de-duplicated; the next round asks for the rest)
        if any(d["still_available_after"][s] for s in d["still_available_after"]):
            cov["rounds_leaving_a_rest_for_the_next_round"] = cov.get("rounds_leaving_a_rest_for_the_next_round", 0) + 1
        for t in fails[:2]:
            rp = vlib.write_replay(PID, "client-round", d)
            if len(violations) < 8:
                violations.append(("sync round (seed %d): %s" % (job[0], t), rp))
        # small rounds (every queue fits one turn): the real assignment must be one the specification produces
        if not fails and all(len(avail[s]) <= 10 for s in avail) and any(avail[s] for s in avail):
            ids = {}
            for s in sorted(avail):
                for need in avail[s]:
                    for u in sorted(need):
                        ids.setdefault(u, len(ids) + 1)
            live = [s for s in sorted(avail) if avail[s]]
            mod = "MCSyncClientRun_%d_%d" % (os.getpid(), job[0])
            q = ", ".join("%s |-> <<%s>>" % (s, ", ".join("{%s}" % ", ".join(str(ids[u]) for u in sorted(need)) for need in avail[s])) for s in live)
            path = os.path.join(vlib.SPECS, mod + ".tla")
            open(path, "w").write("---- MODULE %s ----\nEXTENDS SyncClient\nSV == {%s}\nQS == {[%s]}\n====\n" % (mod, ", ".join('"%s"' % s for s in live), q))
            try:
                c = write_cfg(mod + ".cfg", "SPECIFICATION Spec\nCONSTANTS\n Servers <- SV\n Queues <- QS\n Drain = 10\n Dedupe = TRUE\nINVARIANTS C04_OnlyAdvertised C04_NoDuplicate C04_AllRequested Export\n")
                r = vlib.run_tlc(mod + ".tla", c, workers=1, timeout=600, keep_lines=lambda l: "ASSIGN" in l)
                if os.environ.get("VERIF_DEBUG"):
                    vlib.log("ASSIGN lines: %r" % r.lines[:3])
            finally:
                os.remove(path)
            if r.error or r.violated:
                mismatch.append("SyncClient.tla on the scenario of seed %d: %s" % (job[0], r.error or r.violated)); continue
            allowed = []
            for line in r.lines:
                if line.startswith('"'):
                    line = json.loads(line)
                a = json.loads(line[line.index("ASSIGN ") + 7:])
                allowed.append({s: frozenset(a.get(s, [])) for s in live})
            real = {s: frozenset(ids[u] for u in ru.get(s, set())) for s in live}
            if real not in allowed:
                rp = vlib.write_replay(PID, "client-round-model", {"scenario": d, "allowed": [{s: sorted(v) for s, v in a.items()} for a in allowed], "real": {s: sorted(v) for s, v in real.items()}})
                mismatch.append("sync round (seed %d): the requests the servers read are no assignment SyncClient.tla produces for these needs (%s)" % (job[0], rp))
    cov["sync_rounds_judged"] = rounds
    vlib.log("[C04] %d real sync rounds judged" % rounds)


def run(tier):
    t0 = time.time()
    violations, mismatch = [], []
    configs = [(4, 2, 1)] if tier == "quick" else [(4, 2, 1), (4, 1, 4), (3, 2, 2), (5, 1, 1)]
    cov = {"states": 0, "transitions": 0, "traces_validated_against_impl": 0, "samples": [], "exhaustive": True, "configs": []}
    nontrivial = 0
    for (mh, ms, mp) in configs:
        cfg = write_cfg("SyncNeeds_%d_%d_%d.cfg" % (mh, ms, mp),
                        "SPECIFICATION Spec\nCONSTANTS\n MaxH = %d\n MaxS = %d\n MaxP = %d\nINVARIANTS %s Export\n" % (mh, ms, mp, INVS))
        r = vlib.run_tlc("MCSyncNeeds.tla", cfg, workers=8, timeout=2400,
                         keep_lines=lambda l: l.startswith("REPLAY ") or l.startswith('"REPLAY '), heap="12g")
        if r.error:
            raise vlib.ToolError("TLC SyncNeeds: %s\n%s" % (r.error, r.output[-1500:]))
        vlib.log("[C04] TLC (MaxH=%d MaxS=%d MaxP=%d): %d pairs, violated=%s (%.0fs)" % (mh, ms, mp, r.distinct, r.violated, r.wall))
        cov["states"] += r.distinct; cov["transitions"] += r.generated
        cov["configs"].append({"MaxH": mh, "MaxS": ms, "MaxP": mp, "pairs": r.distinct})
        if r.violated:
            rp = vlib.write_replay(PID, "model-" + r.violated, {"invariant": r.violated, "trace": r.trace[:60]})
            mismatch.append("SyncNeeds.tla violates %s (%s); the replay below decides for the code" % (r.violated, rp))
        cases = []
        for i, line in enumerate(r.lines):
            if line.startswith('"'):
                line = json.loads(line)
            d = json.loads(line[7:]); d["id"] = i
            cases.append(d)
        r.lines = []
        res = run_cases("replay-syncneeds", cases, nproc=12)
        for c in cases:
            got = res[c["id"]]
            exp_full = sorted(c["out"]["full"])
            exp_part = sorted(([p["v"], sorted(p["seqs"])] for p in c["out"]["partial"]))
            if exp_full or exp_part:
                nontrivial += 1
            why = "panic" if got.get("panic") else judge(c, got)
            if why:
                if len(violations) < 5:
                    rp = vlib.write_replay(PID, "needs", {"case": c, "real": got, "why": why})
                    violations.append((why, rp))
                continue
            got_part = sorted(([p["v"], sorted(p["seqs"])] for p in got["partial"]))
            if sorted(got["full"]) != exp_full or got_part != exp_part:
                if len(mismatch) < 5:
                    rp = vlib.write_replay(PID, "mismatch", {"case": c, "real": got})
                    mismatch.append("real compute_available_needs differs from SyncNeeds.tla but satisfies C04's formulas (%s)" % rp)
        cov["traces_validated_against_impl"] += len(cases)
        if not cov["samples"]:
            rnd = random.Random(vlib.seed())
            nt = [c for c in cases if c["out"]["partial"]]
            cov["samples"] = rnd.sample(nt, min(3, len(nt)))
    client_round(tier, violations, mismatch, cov)
    cov["evaluations"] = cov["traces_validated_against_impl"]
    cov["distinct_nontrivial"] = nontrivial
    cov["rule"] = "every pair of well-formed advertised states for one origin actor (heads 0..MaxH, any need set, <= MaxP partial versions with any non-empty missing-seq set over 0..MaxS) x {actor is self, actor is foreign}; non-trivial = non-empty request"
    vlib.write_evidence(PID, tier, LEVEL, cov, time.time() - t0, violations=len(violations), assumptions=[
        "compute_available_needs treats each actor of the peer's heads independently (read from the code), so one actor is the whole input space",
        "the request scheduler of parallel_sync is checked on rounds of one client against two servers over loopback QUIC; which peers are chosen for a round (members/ring0) belongs to C18"])
    return {"violations": violations, "mismatch": mismatch}


def replay(path):
    d = json.load(open(path))
    c = d["case"]; c["id"] = 0
    got = run_cases("replay-syncneeds", [c], nproc=1)[0]
    why = "panic" if got.get("panic") else judge(c, got)
    return {"violations": [(why, path)] if why else []}
