"""C02 — advertised sync state is an exact, durable summary of what a node holds.

Decided by: specs/Bookkeeping.tla (TLC, exhaustive on the configurations below) + edge replay of every
transition of the bounded model on the real BookedVersions / process_multiple_changes /
process_fully_buffered_changes / clear_buffered_meta_loop / from_conn / generate_sync."""
import json, os, time, random
from concurrent.futures import ThreadPoolExecutor
import vlib
import bkmodel

PID = "C02"
LEVEL = "model_checking"

# name -> (MaxV, MaxS, MaxBatch, Lasts)
CONFIGS_QUICK = {"A": (4, 0, 2, "{0}"), "B": (1, 3, 2, "{3}"), "C": (2, 1, 2, "{1}")}
CONFIGS_THOROUGH = {"A": (6, 0, 2, "{0}"), "B": (2, 2, 2, "{2}"), "C": (3, 1, 1, "{1}"), "D": (2, 3, 1, "{3}"), "E": (2, 2, 1, "{1,2}")}
FULLSTART = 0   # PartialVersion::full_range() as in /repo after fix 512d28d (S1); the code as first found had 1

INVS = ["TypeOK", "C02_HeldIsDurable", "C02_NeedExact", "C02_Disjoint", "C02_PartialExact",
        "C02_RowsMatch", "C02_ReloadEq", "C02_NoErr"]


def write_cfg(name, consts, spec, kf_s2=True, invs=True, fullstart=None):
    (mv, ms, mb, lasts) = consts
    path = os.path.join(vlib.scratch(), "Bookkeeping_%s_%s.cfg" % (name, spec))
    with open(path, "w") as f:
        f.write("SPECIFICATION %s\nCONSTANTS\n MaxV = %d\n MaxS = %d\n MaxBatch = %d\n Lasts = %s\n FullStart = %d\n KF_S2 = %s\n"
                % (spec, mv, ms, mb, lasts, FULLSTART if fullstart is None else fullstart, "TRUE" if kf_s2 else "FALSE"))
        if invs:
            f.write("INVARIANTS\n" + "\n".join(" " + i for i in INVS) + "\n")
    return path


def export_edges(name, consts):
    cfg = write_cfg(name, consts, "EdgeSpec", invs=False)
    r = vlib.run_tlc("MCBookkeeping.tla", cfg, workers=8, timeout=1500,
                     keep_lines=lambda l: l.startswith('"EDGE ') or l.startswith("EDGE "), dump_trace=False)
    if not r.ok:
        raise vlib.ToolError("edge export failed for %s: %s\n%s" % (name, r.error, r.output[-2000:]))
    edges = {}
    states = {}
    for line in r.lines:
        if line.startswith('"'):
            line = json.loads(line)
        d = json.loads(line[5:])
        a = bkmodel.canon(d["from"]); b = bkmodel.canon(d["to"])
        ka = json.dumps(a, sort_keys=True); kb = json.dumps(b, sort_keys=True)
        states[ka] = (a, sorted(d["fromGhost"]["merged"]))
        states[kb] = (b, sorted(d["toGhost"]["merged"]))
        edges[(ka, json.dumps(d["op"], sort_keys=True))] = kb
    return r, states, edges


def replay_paths(paths, nproc=12):
    """paths: list of dict(id, ops, states). Returns (summaries, mismatches)."""
    if not paths:
        return {"paths": 0, "steps": 0, "mismatches": 0}, []
    nproc = max(1, min(nproc, len(paths)))
    shards = [[] for _ in range(nproc)]
    for i, p in enumerate(paths):
        shards[p.get("shard", i) % nproc].append(p)
    shards = [sh for sh in shards if sh]
    nproc = len(shards)
    files = []
    for i, sh in enumerate(shards):
        fn = os.path.join(vlib.scratch(), "bkpaths.%d.%d.ndjson" % (int(time.time() * 1000) % 10**8, i))
        with open(fn, "w") as f:
            for p in sh:
                f.write(json.dumps(p) + "\n")
        files.append(fn)

    def one(fn):
        return vlib.run_vh(["replay-bookkeeping", fn], timeout=3000)
    tot = {"paths": 0, "steps": 0, "mismatches": 0}
    mism = []
    with ThreadPoolExecutor(max_workers=nproc) as ex:
        for p in ex.map(one, files):
            if p.returncode != 0:
                raise vlib.ToolError("vh replay-bookkeeping failed: %s" % p.stderr[-3000:])
            for line in p.stdout.splitlines():
                d = json.loads(line)
                if "summary" in d:
                    for k in tot:
                        tot[k] += d["summary"][k]
                elif "mismatch" in d:
                    mism.append(d["mismatch"])
    for fn in files:
        os.remove(fn)
    return tot, mism


def ce_to_path(r):
    """TLC counter-example -> replayable path (ops + expected raw states)."""
    ops, states, ghosts = [], [], []
    for (name, ctx, st) in r.ce:
        if name == "Deliver":
            ops.append({"op": "deliver", "batch": ctx["b"]})
        elif name == "ApplyBuffered":
            ops.append({"op": "apply", "v": ctx["v"]})
        elif name == "ClearMeta":
            ops.append({"op": "clear", "v": ctx["v"]})
        elif name == "Restart":
            ops.append({"op": "restart"})
        else:
            raise vlib.ToolError("unknown action in counter-example: %s" % name)
        states.append(bkmodel.canon_raw(st))
        ghosts.append(sorted(st.get("merged", [])))
    return {"id": "ce", "ops": ops, "states": states, "ghosts": ghosts}


def run(tier):
    t0 = time.time()
    configs = CONFIGS_QUICK if tier == "quick" else CONFIGS_THOROUGH
    violations, known, mismatch = [], [], []
    cov = {"states": 0, "transitions": 0, "traces_validated_against_impl": 0, "samples": [], "configs": {},
           "exhaustive": True}
    open_kf = {k["id"]: k for k in vlib.open_findings(PID)}
    kf_s2 = "S2r" in open_kf
    all_paths = []
    for name, consts in configs.items():
        # (1) TLC decides the invariants on the bounded model
        cfg = write_cfg(name, consts, "Spec", kf_s2=kf_s2)
        r = vlib.run_tlc("MCBookkeeping.tla", cfg, workers=8, timeout=1500, coverage=(tier == "thorough"))
        vlib.log("[C02] TLC %s %s: %d generated, %d distinct, violated=%s (%.0fs)" % (name, consts, r.generated, r.distinct, r.violated, r.wall))
        if r.error:
            raise vlib.ToolError("TLC failed on %s: %s\n%s" % (name, r.error, r.output[-1500:]))
        cov["states"] += r.distinct
        cov["transitions"] += r.generated
        cov["configs"][name] = {"MaxV": consts[0], "MaxS": consts[1], "MaxBatch": consts[2], "Lasts": consts[3],
                                "distinct_states": r.distinct, "transitions": r.generated, "depth": r.depth}
        if r.violated:
            # the model admits a bad state: it counts only if the real code follows the counter-example
            path = ce_to_path(r)
            tot, mism = replay_paths([path], nproc=1)
            rp = vlib.write_replay(PID, "model-" + r.violated, {"config": cov["configs"][name], "invariant": r.violated, "path": path, "real_code_follows": not mism})
            if mism:
                mismatch.append("model violates %s but the real code does not follow the counter-example (%s)" % (r.violated, rp))
            else:
                violations.append(("model+code violate %s" % r.violated, rp))
            continue
        # (2) every edge of the reachable graph is replayed on the real code
        er, states, edges = export_edges(name, consts)
        init = None
        for k, (s, g) in states.items():
            if s["max"] == 0 and not s["seqRows"] and not s["gapRows"] and s["dbv"] == 0 and not s["pendApply"] and not s["pendClear"] and not s["partials"]:
                init = k
        elist = [(a, op, b) for ((a, op), b) in edges.items()]
        paths = vlib.bfs_paths(init, elist)
        cov["configs"][name]["edges"] = len(elist)
        nontrivial = sum(1 for (a, op, b) in elist if a != b)
        cov["configs"][name]["edges_changing_state"] = nontrivial
        workers = 14
        for w, walks in enumerate(vlib.cover_walks(init, edges, workers)):
            for j, walk in enumerate(walks):
                all_paths.append({"id": "%s-%d-%d" % (name, w, j), "shard": w,
                                  "ops": [json.loads(o) for (o, b) in walk],
                                  "states": [states[b][0] for (o, b) in walk],
                                  "ghosts": [states[b][1] for (o, b) in walk]})
    if all_paths:
        rnd = random.Random(vlib.seed())
        cov["samples"] = [{"ops": p["ops"][:6], "state_after_6_ops": p["states"][min(5, len(p["states"]) - 1)]} for p in rnd.sample(all_paths, min(3, len(all_paths)))]
        tot, mism = replay_paths(all_paths, nproc=14)
        vlib.log("[C02] replayed %d edge paths (%d steps), %d mismatches" % (tot["paths"], tot["steps"], tot["mismatches"]))
        cov["traces_validated_against_impl"] = tot["paths"]
        cov["edges_replayed"] = sum(c.get("edges", 0) for c in cov["configs"].values())
        cov["replayed_steps"] = tot["steps"]
        seen_sig = set()
        for m in mism:
            # the real code left the specification: judge the real state by the property itself
            ghost = None
            for p in all_paths:
                if p["id"] == m["id"]:
                    ghost = p["ghosts"][m["step"]]
            failed = bkmodel.eval_c02(m["got"], ghost or [], kf_s2=kf_s2) if not m.get("error") else ["C02_NoErr"]
            sig = (tuple(failed), json.dumps(m["op"], sort_keys=True))
            if sig in seen_sig and len(seen_sig) > 20:
                continue
            seen_sig.add(sig)
            if failed:
                rp = vlib.write_replay(PID, "replay", {"failed": failed, "mismatch": m})
                if len(violations) < 5:
                    violations.append(("real state violates %s after %s" % (",".join(failed), json.dumps(m["op"])), rp))
            else:
                if len(mismatch) < 5:
                    rp = vlib.write_replay(PID, "mismatch", {"mismatch": m})
                    mismatch.append("real code differs from Bookkeeping.tla but C02's formulas hold on the real state (%s)" % rp)
    # (3) known findings: reproduction probes
    for kid, kf in open_kf.items():
        if kid == "S2r":
            consts = (2, 1, 1, "{1}")
            cfg = write_cfg("KF", consts, "Spec", kf_s2=False)
            r = vlib.run_tlc("MCBookkeeping.tla", cfg, workers=4, timeout=600)
            if r.violated and r.ce:
                path = ce_to_path(r)
                tot, mism = replay_paths([path], nproc=1)
                if not mism:
                    known.append("S2r %s (model counter-example for %s reproduced on the real code: %s)" % (kf["what"], r.violated, json.dumps(path["ops"])))
    cov["rule"] = ("every transition (state, operation) of Bookkeeping.tla reachable within the constants of each configuration; "
                   "an operation is a process_multiple_changes batch (complete / partial / empty changesets), a buffered apply, a meta clear or a reload")
    cov["evaluations"] = cov["traces_validated_against_impl"]
    cov["distinct_nontrivial"] = sum(c.get("edges_changing_state", 0) for c in cov["configs"].values())
    cov["checker_cmd"] = "tlc MCBookkeeping.tla (Spec + invariants %s), then vh replay-bookkeeping on all edges" % ",".join(INVS)
    vlib.write_evidence(PID, tier, LEVEL, cov, time.time() - t0, violations=len(violations), assumptions=[
        "bounds: versions 1..MaxV, seqs 0..MaxS, batches of <= MaxBatch changesets per call (see coverage.configs)",
        "honest inputs: one last_seq per version, partial chunks carry a row for every seq in their range",
        "ghost 'merged' (versions stored by a committed transaction) is taken from the specification along the replayed path",
        "known finding S2r region exempted exactly as StaleV in Bookkeeping.tla" if kf_s2 else "no known finding exempted",
    ])
    return {"violations": violations, "known": known, "mismatch": mismatch}


def replay(path):
    with open(path) as f:
        d = json.load(f)
    p = d.get("path")
    if not p and "mismatch" in d:
        m = d["mismatch"]
        raise vlib.ToolError("replay of edge mismatches: re-run the check (paths are regenerated from the specification)")
    tot, mism = replay_paths([p], nproc=1)
    if not mism:
        return {"violations": [("counter-example reproduced on the real code", path)]}
    return {"violations": []}
