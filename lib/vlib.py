"""Shared helpers for the /verif check driver: TLC runner, harness runner, evidence writer."""
import json, os, re, shutil, subprocess, sys, time, hashlib

ROOT = os.path.dirname(os.path.dirname(os.path.abspath(__file__)))
SPECS = os.path.join(ROOT, "specs")
HARNESS = os.path.join(ROOT, "harness")
WORK = os.path.join(ROOT, "work")
REPLAYS = os.path.join(ROOT, "replays")
EVIDENCE = os.path.join(ROOT, "evidence")
VH = os.environ.get("VERIF_VH") or os.path.join(HARNESS, "target", "debug", "vh")
TLA_JAR = "/opt/veriftools/tla/tla2tools.jar"
COMMUNITY = "/opt/veriftools/tla"


class ToolError(Exception):
    pass


def log(*a):
    print(*a, file=sys.stderr, flush=True)


_scratch = None


def scratch():
    """per-process scratch dir (TMPDIR for vh / java.io.tmpdir for TLC); removed at exit."""
    global _scratch
    if _scratch is None:
        _scratch = os.path.join(WORK, "tmp.%d" % os.getpid())
        os.makedirs(_scratch, exist_ok=True)
    return _scratch


def cleanup():
    global _scratch
    if _scratch and os.path.isdir(_scratch):
        shutil.rmtree(_scratch, ignore_errors=True)
    _scratch = None


def seed():
    try:
        return int(os.environ.get("VERIF_SEED", "1"))
    except ValueError:
        return 1


def cargo_env():
    env = dict(os.environ)
    env["CARGO_NET_OFFLINE"] = "true"
    env.pop("RUSTFLAGS", None)
    return env


def build_harness():
    """(Re)build the harness against /repo's current working tree with the `verif` feature on."""
    t0 = time.time()
    # keep Cargo.lock / toolchain in step with the repository (path deps are resolved against it)
    for f in ("rust-toolchain.toml",):
        src = os.path.join("/repo", f)
        if os.path.exists(src):
            shutil.copyfile(src, os.path.join(HARNESS, f))
    if not os.path.exists(os.path.join(HARNESS, "Cargo.lock")):
        shutil.copyfile("/repo/Cargo.lock", os.path.join(HARNESS, "Cargo.lock"))
    p = subprocess.run(["cargo", "build", "--offline", "--bin", "vh"], cwd=HARNESS, env=cargo_env(),
                       stdout=subprocess.PIPE, stderr=subprocess.STDOUT, text=True)
    if p.returncode != 0:
        log(p.stdout[-6000:])
        raise ToolError("harness build failed (does /repo compile with feature verif?)")
    log("[build] harness built in %.1fs" % (time.time() - t0))
    return time.time() - t0


def run_vh(args, stdin=None, timeout=3600, env_extra=None, capture=True):
    env = dict(os.environ)
    env["TMPDIR"] = scratch()
    env.setdefault("RUST_BACKTRACE", "1")
    if env_extra:
        env.update(env_extra)
    try:
        p = subprocess.run([VH] + args, input=stdin, stdout=subprocess.PIPE if capture else None,
                           stderr=subprocess.PIPE if capture else None, text=True, timeout=timeout, env=env)
    except subprocess.TimeoutExpired:
        raise ToolError("vh %s timed out after %ss" % (args[:2], timeout))
    return p


class TlcResult:
    def __init__(self):
        self.ok = False
        self.generated = 0
        self.distinct = 0
        self.depth = 0
        self.violated = None      # name of violated invariant/property
        self.deadlock = False
        self.error = None         # tool-level error text
        self.output = ""
        self.lines = []
        self.coverage = {}        # action -> (distinct, total)
        self.trace = []           # counter-example states as text
        self.ce = None            # counter-example as [(action name, context dict, state-after dict)]
        self.wall = 0.0
        self.budget_exhausted = False


def run_tlc(module, cfg, workers=8, timeout=1800, extra=None, env_extra=None, simulate=None,
            depth=None, coverage=False, jvm=None, deadlock=False, keep_lines=None, dfs=False, heap="8g",
            dump_trace=True, budget=None):
    """budget (seconds): stop the exploration when it is used up and report what was explored so far
    (r.budget_exhausted) instead of failing; a violation found before that is reported as usual.
    Run TLC on specs/<module>.tla with specs/<cfg>. keep_lines: predicate(line)->bool to retain
    lines (e.g. EDGE / REPLAY prints). Returns TlcResult."""
    r = TlcResult()
    meta = os.path.join(scratch(), "tlc.%s.%d" % (os.path.basename(cfg), int(time.time() * 1000) % 10**9))
    os.makedirs(meta, exist_ok=True)
    jopts = ["-XX:+UseParallelGC", "-Xmx" + heap, "-Xss1g", "-Djava.io.tmpdir=" + scratch()]
    if dfs:
        jopts.append("-Dtlc2.tool.queue.IStateQueue=StateDeque")
    if jvm:
        jopts += jvm
    cmd = ["java"] + jopts + ["-cp", TLA_JAR + ":" + COMMUNITY + "/*", "tlc2.TLC",
           "-workers", str(workers), "-metadir", meta, "-cleanup", "-noGenerateSpecTE",
           "-config", cfg]
    ce_file = os.path.join(meta, "..", os.path.basename(meta) + ".ce.json")
    if dump_trace and not simulate:
        cmd += ["-dumpTrace", "json", ce_file]
    if not deadlock:
        cmd.append("-deadlock")  # TLC's -deadlock flag DISABLES deadlock checking
    if simulate:
        cmd += ["-simulate", simulate]
    if depth:
        cmd += ["-depth", str(depth)]
    if coverage:
        cmd += ["-coverage", "1"]
    if extra:
        cmd += extra
    cmd.append(module)
    env = dict(os.environ)
    env.pop("JAVA_TOOL_OPTIONS", None)
    if env_extra:
        env.update(env_extra)
    t0 = time.time()
    try:
        p = subprocess.Popen(cmd, cwd=SPECS, stdout=subprocess.PIPE, stderr=subprocess.STDOUT, text=True, env=env)
    except OSError as e:
        raise ToolError("cannot start TLC: %s" % e)
    out_tail = []
    important = []
    kept = []
    try:
        deadline = t0 + timeout
        for line in p.stdout:
            line = line.rstrip("\n")
            if keep_lines and keep_lines(line):
                kept.append(line)
                continue
            if line.startswith("Error:") or "is violated" in line or "TRACE-REJECTED" in line:
                important.append(line)
            out_tail.append(line)
            if len(out_tail) > 4000:
                del out_tail[300:1300]
            if budget and time.time() > t0 + budget and not important:
                p.kill()
                r.budget_exhausted = True
                break
            if time.time() > deadline:
                p.kill()
                raise ToolError("TLC timed out after %ss on %s" % (timeout, cfg))
        p.wait()
    finally:
        if p.poll() is None:
            p.kill()
        if os.path.exists(ce_file):
            try:
                with open(ce_file) as f:
                    d = json.load(f)
                acts = d.get("counterexample", {}).get("action", [])
                r.ce = [(a[1].get("name"), a[1].get("context", {}), a[2][1]) for a in acts]
                r.ce_init = acts[0][0][1] if acts else None
            except Exception as e:  # noqa
                r.ce = None
            os.remove(ce_file)
        shutil.rmtree(meta, ignore_errors=True)
        # TLC leaves states/ dirs next to the spec when metadir is ignored
    r.wall = time.time() - t0
    r.lines = kept
    r.output = "\n".join(important + out_tail)
    txt = r.output
    m = re.search(r"(\d+) states generated, (\d+) distinct states found", txt)
    if m:
        r.generated = int(m.group(1)); r.distinct = int(m.group(2))
    for m in re.finditer(r"(\d+) states generated, (\d+) distinct states found", txt):
        r.generated = int(m.group(1)); r.distinct = int(m.group(2))
    m = re.search(r"The depth of the complete state graph search is (\d+)", txt)
    if m:
        r.depth = int(m.group(1))
    m = re.search(r"Invariant (\S+) is violated", txt)
    if m:
        r.violated = m.group(1)
    m = re.search(r"Action property (\S+) is violated", txt)
    if m:
        r.violated = m.group(1)
    if "Temporal properties were violated" in txt:
        r.violated = r.violated or "temporal"
    if "Deadlock reached" in txt:
        r.deadlock = True
    if r.violated or r.deadlock:
        # capture the trace text
        i = txt.find("The behavior up to this point is")
        if i < 0:
            i = txt.find("The following behavior constitutes a counter-example")
        if i >= 0:
            r.trace = txt[i:i + 20000].split("\n")
    # coverage lines: <Action line ...>: distinct:total
    for m in re.finditer(r"^<(\w+) line \d+, col \d+ to line \d+, col \d+ of module (\w+)>: (\d+):(\d+)", txt, re.M):
        a = m.group(1)
        d, t = int(m.group(3)), int(m.group(4))
        pd, pt = r.coverage.get(a, (0, 0))
        r.coverage[a] = (pd + d, pt + t)
    finished = "Model checking completed" in txt or "Finished in" in txt or (simulate is not None)
    errs = [l for l in out_tail if l.startswith("Error:") or "Exception" in l or "***Parse Error***" in l]
    if r.violated or r.deadlock:
        r.ok = False
    elif r.budget_exhausted:
        r.ok = True
        for m in re.finditer(r"Progress\((\d+)\).*?: ([\d,]+) states generated.*?, ([\d,]+) distinct states found", txt):
            r.depth = int(m.group(1)); r.generated = int(m.group(2).replace(",", "")); r.distinct = int(m.group(3).replace(",", ""))
    elif p.returncode == 0 and finished:
        r.ok = True
    else:
        # POSTCONDITION failures, assumption failures, parse errors ...
        r.ok = False
        r.error = "\n".join(errs[:5]) or ("TLC exit code %s" % p.returncode)
    return r


def write_evidence(pid, tier, level, coverage, wall_s, violations=0, assumptions=None):
    os.makedirs(EVIDENCE, exist_ok=True)
    ev = {
        "property_id": pid,
        "tier": tier,
        "seed": seed(),
        "level": level,
        "coverage": coverage,
        "assumptions": assumptions or [],
        "wall_s": round(wall_s, 2),
        "violations": violations,
    }
    path = os.path.join(EVIDENCE, pid + ".json")
    with open(path + ".tmp", "w") as f:
        json.dump(ev, f, indent=1, sort_keys=True)
    os.replace(path + ".tmp", path)
    return path


def write_replay(pid, name, obj):
    os.makedirs(REPLAYS, exist_ok=True)
    h = hashlib.sha1(json.dumps(obj, sort_keys=True, default=str).encode()).hexdigest()[:10]
    path = os.path.join(REPLAYS, "%s-%s-%s.json" % (pid, name, h))
    with open(path, "w") as f:
        json.dump(obj, f, indent=1, default=str)
    return path


def known_findings():
    p = os.path.join(ROOT, "known_findings.json")
    if not os.path.exists(p):
        return []
    with open(p) as f:
        return json.load(f).get("findings", [])


def open_findings(pid):
    return [k for k in known_findings() if k.get("property") == pid and k.get("status") == "open"]


def bfs_paths(init_key, edges):
    """edges: list of (from_key, op, to_key). Returns dict state_key -> list of ops (shortest path)."""
    from collections import deque
    adj = {}
    for (a, op, b) in edges:
        adj.setdefault(a, []).append((op, b))
    paths = {init_key: []}
    dq = deque([init_key])
    while dq:
        s = dq.popleft()
        for (op, b) in adj.get(s, ()):
            if b not in paths:
                paths[b] = paths[s] + [op]
                dq.append(b)
    return paths


def cover_walks(init_key, edges, nworkers, local_budget=48):
    """edges: dict (from_key, op_key) -> to_key of a deterministic model graph.
    Returns, per worker, a list of walks; a walk is a list of (op_key, to_key) starting at init_key
    (a new walk == reset of the real object).  Together the walks traverse every edge reachable from
    init at least once; workers own disjoint sets of source states.  Strategy: stay in the current
    state while it has untraversed edges (self-loops first), otherwise look for a state with untraversed
    edges within a small neighbourhood, otherwise reset and follow the BFS-tree path to the next one."""
    from collections import deque
    out_ops = {}
    nav = {}
    for (a, op), b in edges.items():
        out_ops.setdefault(a, []).append((op, b))
        if a != b:
            nav.setdefault(a, {}).setdefault(b, op)
    parent = {init_key: None}
    order = [init_key]
    dq = deque([init_key])
    while dq:
        s = dq.popleft()
        for b, op in nav.get(s, {}).items():
            if b not in parent:
                parent[b] = (s, op)
                order.append(b)
                dq.append(b)

    def tree_path(t):
        steps = []
        while parent[t] is not None:
            ps, op = parent[t]
            steps.append((op, t))
            t = ps
        steps.reverse()
        return steps
    srcs = [k for k in order if k in out_ops]
    result = []
    for w in range(nworkers):
        mine = {s: deque(sorted(out_ops[s], key=lambda e: (e[1] != s, e[0]))) for i, s in enumerate(srcs) if i % nworkers == w}
        todo = deque(s for i, s in enumerate(srcs) if i % nworkers == w)
        walks = []
        walk = []
        cur = init_key
        while True:
            if mine.get(cur):
                op, b = mine[cur].popleft()
                walk.append((op, b))
                cur = b
                continue
            prev = {cur: None}
            dq = deque([cur])
            target = None
            budget = local_budget
            while dq and budget > 0:
                s = dq.popleft()
                budget -= 1
                if mine.get(s):
                    target = s
                    break
                for b, op in nav.get(s, {}).items():
                    if b not in prev:
                        prev[b] = (s, op)
                        dq.append(b)
            if target is not None:
                steps = []
                s = target
                while prev[s] is not None:
                    ps, op = prev[s]
                    steps.append((op, s))
                    s = ps
                walk.extend(reversed(steps))
                cur = target
                continue
            while todo and not mine.get(todo[0]):
                todo.popleft()
            if not todo:
                break
            if walk:
                walks.append(walk)
            walk = list(tree_path(todo[0]))
            cur = todo[0]
        if walk:
            walks.append(walk)
        result.append(walks)
    return result
