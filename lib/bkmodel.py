"""Python mirror of the abstract bookkeeping state: canonical JSON shape shared with the harness and the
C02 formulas evaluated on *real* projected states (used when the real code leaves the specification)."""


def runs(ints):
    s = sorted(set(ints))
    out = []
    for x in s:
        if out and out[-1][1] + 1 == x:
            out[-1][1] = x
        else:
            out.append([x, x])
    return out


def elems(rs):
    out = set()
    for (a, b) in rs:
        out |= set(range(a, b + 1))
    return out


def canon_adv(a):
    return {"head": a["head"], "need": runs(a["need"]),
            "partial": sorted(({"v": p["v"], "missing": runs(p["missing"])} for p in a["partial"]), key=lambda p: p["v"])}


def canon_raw(st):
    """TLC variable dump / State record -> harness shape (raw variables only)."""
    return {
        "max": st["max"],
        "needed": runs(st["needed"]),
        "partials": sorted(({"v": p["v"], "seqs": runs(p["seqs"]), "last": p["last"]} for p in st["partials"]), key=lambda p: p["v"]),
        "gapRows": sorted([list(r) for r in st["gapRows"]]),
        "seqRows": sorted([[r["v"], r["s"], r["e"], r["last"]] for r in st["seqRows"]]),
        "bufRows": sorted([list(r) for r in st["bufRows"]]),
        "dbv": st["dbv"],
        "pendApply": sorted(st["pendApply"]),
        "pendClear": sorted(st["pendClear"]),
    }


def canon(st):
    c = canon_raw(st)
    c["adv"] = canon_adv(st["adv"])
    c["advReload"] = canon_adv(st["advReload"])
    return c


def eval_c02(st, merged, kf_s2=True):
    """C02's formulas on a projected real state (harness shape) + ghost `merged`. Returns failed names."""
    failed = []
    merged = set(merged)
    adv = st["adv"]; advr = st["advReload"]
    heads = set(range(1, adv["head"] + 1))
    adv_need = elems(adv["need"])
    adv_partial = {p["v"] for p in adv["partial"]}
    adv_held = heads - adv_need - adv_partial
    seqv = {r[0] for r in st["seqRows"]}

    def rowseqs(v):
        return elems([[r[1], r[2]] for r in st["seqRows"] if r[0] == v])

    def rowlast(v):
        return [r[3] for r in st["seqRows"] if r[0] == v][0]
    fully = {v for v in seqv if not (set(range(0, rowlast(v) + 1)) - rowseqs(v))}
    durably = merged | fully
    memp = {p["v"] for p in st["partials"]}
    stale = {v for v in merged if v in seqv} if kf_s2 else set()
    if not adv_held <= durably:
        failed.append("C02_HeldIsDurable")
    if adv_need != (heads - merged) - seqv:
        failed.append("C02_NeedExact")
    if (adv_need & adv_partial) or not ((adv_partial & merged) <= stale) or (adv_need & durably):
        failed.append("C02_Disjoint")
    pe = True
    for p in adv["partial"]:
        if p["v"] in stale:
            continue
        if p["v"] not in seqv or elems(p["missing"]) != set(range(0, rowlast(p["v"]) + 1)) - rowseqs(p["v"]):
            pe = False
    for v in seqv:
        if v not in durably and (set(range(0, rowlast(v) + 1)) - rowseqs(v)) and v not in adv_partial:
            pe = False
    if not pe:
        failed.append("C02_PartialExact")
    rm = sorted(st["gapRows"]) == runs(elems(st["needed"])) and all(r[0] >= 1 and r[1] <= st["max"] for r in st["gapRows"])
    for p in st["partials"]:
        covered = not (set(range(0, p["last"] + 1)) - elems(p["seqs"]))
        if not covered and p["v"] not in stale and rowseqs(p["v"]) != elems(p["seqs"]):
            rm = False
    rows = sorted(st["seqRows"])
    for i, q in enumerate(rows):
        for r in rows[i + 1:]:
            if q[0] == r[0] and not (q[2] + 1 < r[1] or r[2] + 1 < q[1]):
                rm = False
    if not rm:
        failed.append("C02_RowsMatch")

    def drop(a):
        return {"head": a["head"], "need": a["need"], "partial": [p for p in a["partial"] if p["v"] not in stale]}
    a, r = drop(adv), drop(advr)
    upto = set(range(1, r["head"] + 1))
    held_r = upto - elems(r["need"]) - {p["v"] for p in advr["partial"]}
    if not (a["partial"] == r["partial"] and r["head"] <= a["head"] and (elems(r["need"]) & upto) == (elems(a["need"]) & upto)
            and held_r <= durably):
        failed.append("C02_ReloadEq")
    return failed
