"""C05 — decided on specs/Replication.tla (TLC) + recorded walks of real agents validated by specs/TraceReplication.tla.
See lib/repl_check.py and DESIGN.md §6/C05."""
import repl_check
PID = "C05"


def run(tier):
    return repl_check.run(PID, tier)


def replay(path):
    return repl_check.replay(PID, path)
