#!/usr/bin/env python3
"""Regenerates MANIFEST.json from the table below (kept in one place so it stays valid)."""
import json, os, subprocess
ROOT = os.path.dirname(os.path.dirname(os.path.abspath(__file__)))

HOOK_COMMITS = subprocess.run(["git", "-C", "/repo", "log", "--format=%h %s", "--grep=^verif:"], capture_output=True, text=True).stdout.strip().splitlines()

CHECKS = {
 "C02": dict(
   level="model_checking", engine="bookkeeping", design="§6/C02",
   technique="TLA+ spec Bookkeeping.tla checked exhaustively by TLC + edge replay of every model transition on the real code",
   text="TLC exhausts every reachable bookkeeping state (memory view, gap rows, seq rows, buffered rows) for small version/seq bounds and checks the seven C02 invariants in each; every transition of that graph is then executed on the real process_multiple_changes / process_fully_buffered_changes / clear_buffered_meta_loop / from_conn / generate_sync and the projected real state must equal the model state, so the invariants transfer to the code for all inputs inside the bounds.",
   note="bounded (versions<=6, seqs<=3, batches<=2); one actor at a time; known finding S2 region exempted (StaleV); trusted: TLC, projection in harness/src/common.rs, SQLite+cr-sqlite"),
}

NOT_APPLICABLE = [
 {"property_id": "C09", "reason": "byte-level codec fidelity/totality (round-trip of every value, arbitrary peer bytes, allocation bounds, UTF-8 validity) is not a state-transition question; a TLA+ model has no state or interleaving to explore there (DESIGN.md §8)"},
]

def main():
    checks = []
    for pid, c in sorted(CHECKS.items()):
        checks.append({
            "property_id": pid,
            "quick_cmd": "./check %s --tier quick" % pid,
            "thorough_cmd": "./check %s --tier thorough" % pid,
            "evidence_file": "evidence/%s.json" % pid,
            "replay_cmd_template": "./check %s --replay {path}" % pid,
            "engine": c["engine"],
            "level_claimed": {"category": c["level"], "text": c["text"], "design_ref": c["design"]},
            "level_note": c["note"],
            "technique": c["technique"],
        })
    claimed = set(CHECKS)
    na = list(NOT_APPLICABLE)
    for l in open(os.path.join(ROOT, "properties.jsonl")):
        pid = json.loads(l)["id"]
        if pid not in claimed and pid not in {n["property_id"] for n in na}:
            na.append({"property_id": pid, "reason": "check not built yet in this revision of /verif (planned, see DESIGN.md §9 build order)"})
    m = {
        "version": 1,
        "setup_cmd": "cd harness && cargo build --offline --bin vh",
        "hooks": {
            "guard": "cargo feature `verif` on klukai-types and klukai-agent",
            "enable": "the harness depends on /repo/crates/klukai-{types,agent} by path with features=[\"verif\"]; `cargo build --offline` in /verif/harness rebuilds them from /repo's working tree",
            "baseline_off_cmd": "cd /repo && cargo nextest run --workspace --no-fail-fast --test-threads 8 --offline || cargo test --workspace --no-fail-fast --offline",
            "source_commits": HOOK_COMMITS,
            "add_only": True,
        },
        "engines": [
            {"name": "bookkeeping", "path": "specs/Bookkeeping.tla + specs/MCBookkeeping.tla + harness/src/bk.rs + lib/prop_c02.py", "serves_properties": ["C02"], "kind_free_text": "TLA+ model checked by TLC; all edges replayed on the real crates"},
        ],
        "checks": checks,
        "not_applicable": sorted(na, key=lambda n: n["property_id"]),
        "notes": "exit codes: 0 held, 1 with VIOLATION line, 2 tool error / MODEL-MISMATCH. known_findings.json lists recorded defects; DESIGN.md explains each check.",
    }
    with open(os.path.join(ROOT, "MANIFEST.json"), "w") as f:
        json.dump(m, f, indent=1)
    print("MANIFEST.json written: %d checks, %d not applicable" % (len(checks), len(na)))

if __name__ == "__main__":
    main()
