#!/usr/bin/env python3
"""Regenerates MANIFEST.json from the table below (kept in one place so it stays valid)."""
import json, os, subprocess
ROOT = os.path.dirname(os.path.dirname(os.path.abspath(__file__)))

HOOK_COMMITS = subprocess.run(["git", "-C", "/repo", "log", "--format=%h %s", "--grep=^verif:"], capture_output=True, text=True).stdout.strip().splitlines()

CHECKS = {
 "C02": dict(
   level="model_checking", engine="bookkeeping", design="§6/C02",
   technique="TLA+ spec Bookkeeping.tla checked exhaustively by TLC + edge replay of every model transition on the real code",
   text="TLC exhausts every reachable bookkeeping state (memory view, gap rows, seq rows, buffered rows) for small version/seq bounds and checks the seven C02 invariants in each; every transition of that graph is then executed on the real process_multiple_changes / process_fully_buffered_changes / clear_buffered_meta_loop / from_conn / generate_sync and the projected real state must equal the model state, so the invariants transfer to the code for all inputs inside the bounds.",
   note="bounded (versions<=6, seqs<=3, batches<=2); one actor at a time; known finding S2 region exempted (StaleV); trusted: TLC, projection in harness/src/common.rs, SQLite+cr-sqlite"),
 "C04": dict(
   level="model_checking", engine="syncneeds", design="§6/C04",
   technique="TLA+ spec SyncNeeds.tla checked by TLC over all pairs of advertised states + every pair replayed through the real compute_available_needs",
   text="TLC enumerates every pair of well-formed advertised sync states for an actor within the bounds (heads<=4, any need set, partial versions with any missing-seq set) and checks completeness / within-head / not-self / seq-soundness on the transcribed algorithm; each enumerated pair is run through the real function whose normalised output must equal the specification's and satisfy the same formulas.",
   note="bounded heads/seqs; the function handles actors independently (read from code) so one actor x {self, foreign} is the whole space; client-side request chunking/de-duplication in parallel_sync not covered"),
 "C08": dict(
   level="model_checking", engine="chunker", design="§6/C08",
   technique="TLA+ specs Chunker.tla / ChunkRange.tla checked by TLC over all inputs and limit schedules + every behaviour replayed on the real ChunkedChanges / chunk_range",
   text="TLC explores every ordered input (dense, holes, empty, ending early) for start<=2,last<=4(5), sizes {1,2}, every limit schedule with <=2 changes, and checks the tiling invariants at every step plus termination; each completed behaviour is executed on the real iterator (set_max_buf_size between chunks) and the tiling predicate is evaluated on the real output, which must also equal the model's; chunk_range likewise for all (lo,hi,k).",
   note="bounded sizes; strictly increasing seqs (property precondition); chunk_size 0 excluded"),
 "C18": dict(
   level="model_checking", engine="members", design="§6/C18",
   technique="TLA+ spec Members.tla (ghost fold over notification history) checked exhaustively by TLC + all model edges replayed on the real Members",
   text="TLC exhausts all admissible up/down notification and RTT-sample sequences for 2 peers x 3 identity timestamps x 4 addresses x 2 clusters and checks view/index/ring/ring0 invariants against the ghost 'newest identity' oracle; every edge of that graph (365k) is executed on the real Members struct and compared state by state.",
   note="RTT buffers below the real 20-sample capacity; distinct peers never share an address; foca itself is not modelled, only corrosion's reaction to its notifications"),
}

NOT_APPLICABLE = [
 {"property_id": "C09", "reason": "byte-level codec fidelity/totality (round-trip of every value, arbitrary peer bytes, allocation bounds, UTF-8 validity) is not a state-transition question; a TLA+ model has no state or interleaving to explore there (DESIGN.md §8)"},
]

def main():
    checks = []
    for pid, c in sorted(CHECKS.items()):
        checks.append({
            "property_id": pid,
            "quick_cmd": "./check %s --tier quick" % pid,
            "thorough_cmd": "./check %s --tier thorough" % pid,
            "evidence_file": "evidence/%s.json" % pid,
            "replay_cmd_template": "./check %s --replay {path}" % pid,
            "engine": c["engine"],
            "level_claimed": {"category": c["level"], "text": c["text"], "design_ref": c["design"]},
            "level_note": c["note"],
            "technique": c["technique"],
        })
    claimed = set(CHECKS)
    na = list(NOT_APPLICABLE)
    for l in open(os.path.join(ROOT, "properties.jsonl")):
        pid = json.loads(l)["id"]
        if pid not in claimed and pid not in {n["property_id"] for n in na}:
            na.append({"property_id": pid, "reason": "check not built yet in this revision of /verif (planned, see DESIGN.md §9 build order)"})
    m = {
        "version": 1,
        "setup_cmd": "cd harness && cargo build --offline --bin vh",
        "hooks": {
            "guard": "cargo feature `verif` on klukai-types and klukai-agent",
            "enable": "the harness depends on /repo/crates/klukai-{types,agent} by path with features=[\"verif\"]; `cargo build --offline` in /verif/harness rebuilds them from /repo's working tree",
            "baseline_off_cmd": "cd /repo && cargo nextest run --workspace --no-fail-fast --test-threads 8 --offline || cargo test --workspace --no-fail-fast --offline",
            "source_commits": HOOK_COMMITS,
            "add_only": True,
        },
        "engines": [
            {"name": "syncneeds", "path": "specs/SyncNeeds.tla + harness/src/syncneeds.rs + lib/prop_c04.py", "serves_properties": ["C04"], "kind_free_text": "TLA+ enumeration + translation-style replay of every input on the real function"},
            {"name": "chunker", "path": "specs/Chunker.tla + specs/ChunkRange.tla + harness/src/chunker.rs + lib/prop_c08.py", "serves_properties": ["C08"], "kind_free_text": "TLA+ model checked by TLC; all behaviours replayed"},
            {"name": "members", "path": "specs/Members.tla + specs/MCMembers.tla + harness/src/members.rs + lib/prop_c18.py", "serves_properties": ["C18"], "kind_free_text": "TLA+ model checked by TLC; all edges replayed"},
            {"name": "bookkeeping", "path": "specs/Bookkeeping.tla + specs/MCBookkeeping.tla + harness/src/bk.rs + lib/prop_c02.py", "serves_properties": ["C02"], "kind_free_text": "TLA+ model checked by TLC; all edges replayed on the real crates"},
        ],
        "checks": checks,
        "not_applicable": sorted(na, key=lambda n: n["property_id"]),
        "notes": "exit codes: 0 held, 1 with VIOLATION line, 2 tool error / MODEL-MISMATCH. known_findings.json lists recorded defects; DESIGN.md explains each check.",
    }
    with open(os.path.join(ROOT, "MANIFEST.json"), "w") as f:
        json.dump(m, f, indent=1)
    print("MANIFEST.json written: %d checks, %d not applicable" % (len(checks), len(na)))

if __name__ == "__main__":
    main()
