#!/usr/bin/env python3
"""Regenerates MANIFEST.json from the table below (kept in one place so it stays valid)."""
import json, os, subprocess
ROOT = os.path.dirname(os.path.dirname(os.path.abspath(__file__)))

HOOK_COMMITS = subprocess.run(["git", "-C", "/repo", "log", "--format=%h %s", "--grep=^verif:"], capture_output=True, text=True).stdout.strip().splitlines()

CHECKS = {
 "C02": dict(
   level="model_checking", engine="bookkeeping", design="§6/C02",
   technique="TLA+ spec Bookkeeping.tla checked exhaustively by TLC + edge replay of every model transition on the real code",
   text="TLC exhausts every reachable bookkeeping state (memory view, gap rows, seq rows, buffered rows) for small version/seq bounds and checks the seven C02 invariants in each; every transition of that graph is then executed on the real process_multiple_changes / process_fully_buffered_changes / clear_buffered_meta_loop / from_conn / generate_sync and the projected real state must equal the model state, so the invariants transfer to the code for all inputs inside the bounds.",
   note="bounded (versions<=6, seqs<=3, batches<=2); one actor at a time; known finding S2 region exempted (StaleV); trusted: TLC, projection in harness/src/common.rs, SQLite+cr-sqlite"),
 "C04": dict(
   level="model_checking", engine="syncneeds", design="§6/C04",
   technique="TLA+ specs SyncNeeds.tla (all pairs of advertised states, every pair replayed through the real compute_available_needs) and SyncClient.tla (request scheduler of parallel_sync) checked by TLC; real sync rounds of a client against two servers over QUIC, the requests the servers read judged by the formulas and compared with the assignments the specification produces",
   text="TLC enumerates every pair of well-formed advertised sync states for an actor within the bounds (heads<=4, any need set, partial versions with any missing-seq set) and checks completeness / within-head / not-self / seq-soundness on the transcribed algorithm; each enumerated pair is run through the real function whose normalised output must equal the specification's and satisfy the same formulas. SyncClient.tla (round-robin over peers, Drain needs per turn from the back of each queue, de-duplication across peers) is checked for only-advertised / no-duplicate / everything-requested / termination over all queues of disjoint needs within the bounds and both peer orders; seeded real rounds (three real agents, foreign versions incl. a multi-sequence one spread at random) record every request each server reads: the same formulas are evaluated on them and, for rounds whose queues fit one turn, the real assignment must be one the specification produces for exactly these needs.",
   note="bounded heads/seqs; the function handles actors independently (read from code) so one actor x {self, foreign} is the whole space; scheduler bound on two servers over loopback QUIC; choice of peers for a round is C18's"),
 "C08": dict(
   level="model_checking", engine="chunker", design="§6/C08",
   technique="TLA+ specs Chunker.tla / ChunkRange.tla checked by TLC over all inputs and limit schedules + every behaviour replayed on the real ChunkedChanges / chunk_range",
   text="TLC explores every ordered input (dense, holes, empty, ending early) for start<=2,last<=4(5), sizes {1,2}, every limit schedule with <=2 changes, and checks the tiling invariants at every step plus termination; each completed behaviour is executed on the real iterator (set_max_buf_size between chunks) and the tiling predicate is evaluated on the real output, which must also equal the model's; chunk_range likewise for all (lo,hi,k).",
   note="bounded sizes; strictly increasing seqs (property precondition); chunk_size 0 excluded"),
 "C18": dict(
   level="model_checking", engine="members", design="§6/C18",
   technique="TLA+ spec Members.tla (ghost fold over notification history) checked exhaustively by TLC + all model edges replayed on the real Members",
   text="TLC exhausts all admissible up/down notification and RTT-sample sequences for 2 peers x 3 identity timestamps x 4 addresses x 2 clusters and checks view/index/ring/ring0 invariants against the ghost 'newest identity' oracle; every edge of that graph (365k) is executed on the real Members struct and compared state by state.",
   note="RTT buffers below the real 20-sample capacity; distinct peers never share an address; foca itself is not modelled, only corrosion's reaction to its notifications"),
}

REPL_NOTE = "bounded model (2-3 nodes, 2 keys, <=2 transactions per node, message bound); upsert-only data model with unique values; harness is the network (no QUIC, no handle_changes batching); walks sample the behaviour space (seeded), they do not exhaust it; liveness observed, not proved"
def repl(design, what):
    return dict(level="model_checking", engine="replication", design=design,
        technique="TLA+ spec Replication.tla model-checked by TLC + recorded walks of N real agents validated event by event by TLC (TraceReplication.tla) with all invariants evaluated on every state; model counter-examples are executed on the real agents",
        text=what, note=REPL_NOTE)
CHECKS["C10"] = dict(
   level="model_checking", engine="ingest", design="§6/C10",
   technique="TLA+ spec Ingest.tla model-checked by TLC + recorded overload runs of the real handle_changes loop validated by TLC (TraceIngest.tla)",
   text="TLC exhausts every arrival sequence over 2 actors x {complete, two partial chunks, empty}, queue length 2-3, batch cost 1-2, with commits and ticks at any time, and checks that whatever the duplicate cache would suppress is held or still queued / in flight at sequence granularity; the real loop runs with the write connection held by the harness so that batches stall and the queue overflows, every decision it logs (seen / known / queued+dropped, spawn, trim, commit, done) must be the specification's step, and after the overload every offered changeset must be held after three more offers.",
   note="MAX_CONCURRENT=5 in code vs 2-3 in the exhaustive model; a started batch eventually commits; suppression of empty changesets is recorded finding S2e")
CHECKS["C20"] = dict(
   level="model_checking", engine="writepool", design="§6/C20",
   technique="TLA+ specs WritePool.tla and Locks.tla checked by TLC; lock programs extracted from recorded events of the real agent are the constant of Locks.tla; hand-offs judged on recorded events",
   text="TLC checks exclusivity, one-guard, priority at every hand-off and liveness (under fairness) of the dispatcher/guard/connection/permit protocol with cancellation at every stage, and the absence of deadlock in every composition of 2-3 lock programs under a FIFO write-preferring RwLock. A stress run of a real agent records every write-pool and lock-registry event: exclusivity and the priority rule are judged on the recorded hand-offs, a watchdog observes completion, and the lock programs the code actually performs are extracted and model-checked, so a change of lock order or guard scope in the code changes what TLC checks.",
   note="4 requesters / 3 tasks in the models; stress runs sample schedules; booked locks of different actors conservatively identified; tokio RwLock fairness as documented")
CHECKS["C12"] = dict(
   level="model_checking", engine="subcatchup", design="§6/C12",
   technique="TLA+ spec SubCatchUp.tla checked exhaustively by TLC; its as-found counter-example is forced on the real code with pause points; free-running attaches over the real HTTP API and client library judged by the property",
   text="TLC explores every interleaving of the matcher's emit/commit (events are sent before the commit) with an attaching or resuming subscriber: snapshot, queue task with its random select, peek, five catch-up retries, cancel, drain, forward, with receiver/queue capacities 1-3 so that Lagged and overflow occur, for every resume point; it checks that delivered ids are contiguous or the stream ends with an error. The duplicate the as-found protocol admits is replayed on the real agent with two pause points (mechanism D); subscribers attaching through HTTP while a writer commits are read with the real client library and each stream is judged (contiguity, MissedChange reports).",
   note="ids <= 5 and capacities <= 3 in the model; the real 10240-slot buffers are not overflowed by the real runs; the forced schedule succeeds with probability < 1 per attempt (select! coin)")
CHECKS["C11"] = dict(
   level="model_checking", engine="matcher", design="§6/C11",
   technique="TLA+ spec Matcher.tla (query definition vs. the per-table re-evaluation algorithm) checked exhaustively by TLC; real subscriptions compared with SQLite's own evaluation of the query after every burst of local/remote changes",
   text="TLC checks view = Q(db) after every processed batch for all histories of <= 3-4 single-row writes on two tables and any batching, for a filtered projection and an inner join (and exhibits the recorded LEFT JOIN divergence). On a real agent, subscriptions for a filter, a computed column and an inner join receive seeded histories of local transactions and remote changesets merged in shuffled order; after every burst the fold of initial rows and insert/update/delete events must equal the query run on the node database, ids must increase by one, and no event may be a no-op.",
   note="small abstract tables in the model; LEFT JOIN excluded from judgement (known finding S5, probed each run); 1.5 s drain time per burst; keys >= 1")
CHECKS["C14"] = dict(
   level="model_checking", engine="updates", design="§6/C14",
   technique="TLA+ spec Updates.tla checked exhaustively by TLC (Complete, Fate, Monotone) + real update feeds of a real agent judged by the same formulas under local and shuffled remote histories",
   text="TLC explores all histories of inserts/updates/deletes/re-inserts on 2-3 keys with candidates reaching batch_candidates in any order and flushes at any time, and checks that every changed key is notified, the last notification says deleted exactly when the row is gone, and delivered causal lengths never decrease. The real /v1/updates feed is read with the client library while local transactions commit and a second node's transactions are merged out of order and duplicated; Complete and Fate are evaluated on the collected notifications against the final table.",
   note="cache eviction (2000->1000) is outside the claim (TLC shows a stale notification with a tiny cache + reordering); Monotone is only checkable on the model")
CHECKS["C13"] = dict(
   level="model_checking", engine="sublifecycle", design="§6/C13",
   technique="TLA+ spec SubLifecycle.tla checked exhaustively by TLC; real agents stopped gracefully (shutdown order of command/agent.rs) or abruptly (data directory copied while running) and restarted, judged by the property",
   text="TLC explores creation, initial query, changes whose match step runs later, trip, drop_handles, drain, marker write, process death at any point and start, and checks that only subscriptions marked completed are restored, that the marker implies nothing is unmatched, and that everything else is removed at start. On real agents the graceful path must leave state 'completed', restore the same id with rows equal to the query, a change log ending at the last produced change and new ids continuing at +1; the abrupt path must not restore, must remove the directory and answer 404.",
   note="graceful runs keep the last write 300 ms away from the trip (known finding S7 region; probed at 0 ms); process death, not power loss")
CHECKS["C16"] = dict(
   level="model_checking", engine="cluster", design="§6/C16",
   technique="TLA+ spec Cluster.tla checked exhaustively by TLC; the full matrix of declared/actual cluster ids replayed hook-free on two real agents through the public Transport and parallel_sync",
   text="TLC checks that no payload is applied whose declared cluster differs from the receiver's current one (including on connections accepted before a cluster change) and that sync sessions across clusters get exactly the DifferentCluster rejection. Two real agents are then driven with hand-built UniPayload frames (cluster 0/1/2/absent field) on fresh and pre-existing connections and with parallel_sync for every pair of cluster ids; tables and outcomes must match the specification.",
   note="two nodes; target selection among mixed-cluster members is left to C18's ring0 filter; QUIC on loopback")
CHECKS["C17"] = dict(
   level="exploration", engine="apigate", design="§6/C17",
   technique="TLA+ decision/effect tables (ApiGate.tla) checked by TLC and replayed in full against the live HTTP listener of real agents",
   text="The access matrix (token set/unset x 7 routes + unknown path x 4 methods x 7 Authorization header shapes) and the effect table (12 statement classes on the two read endpoints) are small enough to enumerate completely; every combination is executed against a real listener, rejected requests must be client errors without any effect on database, schema and bookkeeping, and no statement class on a read endpoint may change the node. The route list is extracted from the source and must match the specification.",
   note="finite catalogue of statement classes stands in for 'every SQL text'; two agents; loopback HTTP")
CHECKS["C19"] = dict(
   level="exploration", engine="backup", design="§6/C19",
   technique="TLA+ specs BackupRestore.tla (site-ordinal table under Backup/Restore) and RestoreLock.tla (lock sequence of the live restore against SQLite reader connections) checked by TLC; real `corrosion backup`/`restore` runs on databases built by real agents compared with the model's ordinal tables and the source's crsql_changes, with a concurrent reader process and idle reader connections holding cached pages",
   text="TLC checks, for every initial ordinal assignment and authorship within the bounds, that Backup followed by Restore (fresh identity, kept known identity, kept unknown identity) preserves the author of every cell and keeps ordinals one-to-one. The real binary built from /repo is then run on a source holding cells authored by itself, by a foreign actor and by the destination, a deletion and an overwrite: the backup's ordinal table must be the model's Backup of the source's, it must hold no membership rows and no self ordinal, both restored databases must show the source's crsql_changes with the same actor ids, --self-actor-id must bring the node back under its own id, the subscriptions directory must be gone, and every successful read of a reader process looping during the restore must show the old or the new content in full. RestoreLock.tla is checked for whole reads / untouched-on-abort / exclusive copy / termination in WAL and rollback mode, and its stale-cache counter-example (known finding S14) is reproduced with real connections.",
   note="one table shape; restore window is short, so few reads overlap it; SQLite's cache-validity rules are modelled from its documentation/source, not traced; quick: 2 rounds, thorough: 10")
CHECKS["C15"] = dict(
   level="model_checking", engine="schema", design="§6/C15",
   technique="TLA+ spec Schema.tla (accept = constrain + diff rules, merge) checked by TLC; every edge of its state graph replayed through the real api_v1_db_schema on real agents incl. restart",
   text="TLC checks Additive over all sequences of submissions from an 18-entry catalogue (new tables, added columns, forbidden edits of every kind, syntax errors at statement 1/2, multi-statement submissions mixing valid and forbidden edits). All 720 edges (schema state x submission) are executed on real agents whose tables hold rows: HTTP status, PRAGMA table_info/index_list, row counts, __corro_schema and the in-memory schema must equal the model after every submission (so a rejected submission leaves everything unchanged and re-applying changes nothing), and again after a restart on the same files.",
   note="finite catalogue over three tables; SQL generated from abstract definitions; restart = setup()+init_schema")
CHECKS.update({
 "C01": repl("§6/C01", "TLC checks NoInvention / NoLoss (a node that claims a version has every change of it that has not lost globally) / Converged / MergeOfAll on every behaviour of small instances (any delivery order, duplication, re-cut, loss, batching, sync serving, restart); seeded walks over 2-3 real agents are accepted only if every step is the specification's step, and the final drain must reach quiescence with byte-identical tables equal to the merge of all acknowledged transactions. Delete / re-insert histories of one row are decided by Sentinel.tla (any delivery order at a relay) and executed on three real agents through the real sync server."),
 "C03": repl("§6/C03", "TLC checks Atomic (nothing of a remote version visible before the step that applies it), CoveredIsPending and BufferedHaveRecord on the model; real walks with re-cut, overlapping, duplicated chunks from origin and relays in batches are validated step by step, the harness observes the apply trigger exactly when the specification says the version is covered, and the drain must resolve every partial version."),
 "C05": repl("§6/C05", "handle_need/process_sync are transcribed (live rows, gaps, buffered ranges, empties); TLC checks on every reachable server state and every need a client can compute that empties are only declared for held dead versions, changes lie inside their changeset's range and fully held live versions are answered with changesets tiling 0..=last; on the real agents every served need must produce exactly the message set the specification computes, the produced changesets must tile the requested ranges, and the sentinel histories (Sentinel.tla) must lose no live change."),
 "C06": repl("§6/C06", "Restart (process death + setup + run_root initialisation) is an action enabled between any two commits; TLC checks acked-present / advertised-sound / covered-partials-retriggered with restarts anywhere; real walks copy the database files at a commit boundary and start a full agent with start_with_config on the copy, whose projected state must equal the specification's post-restart state and which must keep converging."),
 "C07": repl("§6/C07", "LocalTx / LocalNoEffect: real requests through api_v1_transactions incl. constraint, syntax, parameter-count failures at first/last statement and no-op updates; acknowledged version = previous + 1, nothing consumed or emitted otherwise, announced changesets tile 0..=last_seq and contain exactly the writes, own needed always empty; checked by TLC on the trace and directly on the recorded states."),
})

NOT_APPLICABLE = [
 {"property_id": "C09", "reason": "byte-level codec fidelity/totality (round-trip of every value, arbitrary peer bytes, allocation bounds, UTF-8 validity) is not a state-transition question; a TLA+ model has no state or interleaving to explore there (DESIGN.md §8)"},
]

def main():
    checks = []
    for pid, c in sorted(CHECKS.items()):
        checks.append({
            "property_id": pid,
            "quick_cmd": "./check %s --tier quick" % pid,
            "thorough_cmd": "./check %s --tier thorough" % pid,
            "evidence_file": "evidence/%s.json" % pid,
            "replay_cmd_template": "./check %s --replay {path}" % pid,
            "engine": c["engine"],
            "level_claimed": {"category": c["level"], "text": c["text"], "design_ref": c["design"]},
            "level_note": c["note"],
            "technique": c["technique"],
        })
    claimed = set(CHECKS)
    na = list(NOT_APPLICABLE)
    for l in open(os.path.join(ROOT, "properties.jsonl")):
        pid = json.loads(l)["id"]
        if pid not in claimed and pid not in {n["property_id"] for n in na}:
            na.append({"property_id": pid, "reason": "check not built yet in this revision of /verif (planned, see DESIGN.md §9 build order)"})
    m = {
        "version": 1,
        "setup_cmd": "cd harness && cargo build --offline --bin vh && cd /repo && CARGO_PROFILE_DEV_DEBUG=0 CARGO_TARGET_DIR=/verif/harness/target-repo cargo build --offline -p klukai --bin corrosion",
        "hooks": {
            "guard": "cargo feature `verif` on klukai-types and klukai-agent",
            "enable": "the harness depends on /repo/crates/klukai-{types,agent} by path with features=[\"verif\"]; `cargo build --offline` in /verif/harness rebuilds them from /repo's working tree",
            "baseline_off_cmd": "cd /repo && cargo nextest run --workspace --no-fail-fast --test-threads 8 --offline || cargo test --workspace --no-fail-fast --offline",
            "source_commits": HOOK_COMMITS,
            "add_only": True,
        },
        "engines": [
            {"name": "syncneeds", "path": "specs/SyncNeeds.tla + specs/SyncClient.tla + specs/MCSyncClient.tla + harness/src/syncneeds.rs + harness/src/syncclient.rs + lib/prop_c04.py", "serves_properties": ["C04"], "kind_free_text": "TLA+ enumeration + translation-style replay of every input on the real function"},
            {"name": "chunker", "path": "specs/Chunker.tla + specs/ChunkRange.tla + harness/src/chunker.rs + lib/prop_c08.py", "serves_properties": ["C08"], "kind_free_text": "TLA+ model checked by TLC; all behaviours replayed"},
            {"name": "members", "path": "specs/Members.tla + specs/MCMembers.tla + harness/src/members.rs + lib/prop_c18.py", "serves_properties": ["C18"], "kind_free_text": "TLA+ model checked by TLC; all edges replayed"},
            {"name": "ingest", "path": "specs/Ingest.tla + specs/TraceIngest.tla + harness/src/ingest.rs + lib/prop_c10.py", "serves_properties": ["C10"], "kind_free_text": "TLA+ model checked by TLC; traces of the real loop validated"},
            {"name": "writepool", "path": "specs/TraceWritePool.tla + specs/WritePool.tla + specs/Locks.tla + harness/src/poolstress.rs + lib/prop_c20.py", "serves_properties": ["C20"], "kind_free_text": "TLA+ models checked by TLC; program extraction from recorded events"},
            {"name": "subcatchup", "path": "specs/SubCatchUp.tla + harness/src/subrace.rs + lib/prop_c12.py", "serves_properties": ["C12"], "kind_free_text": "TLA+ model checked by TLC; schedule forcing with pause points; stream oracle"},
            {"name": "matcher", "path": "specs/Matcher.tla + harness/src/matchwalk.rs + lib/prop_c11.py", "serves_properties": ["C11"], "kind_free_text": "TLA+ model checked by TLC; differential oracle against SQLite on real subscriptions"},
            {"name": "updates", "path": "specs/Updates.tla + harness/src/updwalk.rs + harness/src/updorder.rs + lib/prop_c14.py", "serves_properties": ["C14"], "kind_free_text": "TLA+ model checked by TLC; real feed judged; arrival orders of the model replayed on the real update handle"},
            {"name": "sublifecycle", "path": "specs/SubLifecycle.tla + harness/src/sublife.rs + lib/prop_c13.py", "serves_properties": ["C13"], "kind_free_text": "TLA+ model checked by TLC; real stop/restart scenarios judged"},
            {"name": "cluster", "path": "specs/Cluster.tla + harness/src/clusterprobe.rs + lib/prop_c16.py", "serves_properties": ["C16"], "kind_free_text": "TLA+ model checked by TLC; matrix replayed on real agents"},
            {"name": "apigate", "path": "specs/ApiGate.tla + harness/src/apigate.rs + lib/prop_c17.py", "serves_properties": ["C17"], "kind_free_text": "enumerated tables checked by TLC and replayed on a live listener"},
            {"name": "backup", "path": "specs/BackupRestore.tla + specs/RestoreLock.tla + harness/src/backup.rs + lib/prop_c19.py", "serves_properties": ["C19"], "kind_free_text": "TLA+ model checked by TLC; real backup/restore commands judged against it"},
            {"name": "schema", "path": "specs/Schema.tla + lib/schema_cat.py + harness/src/schemareplay.rs + lib/prop_c15.py", "serves_properties": ["C15"], "kind_free_text": "TLA+ model checked by TLC; all edges replayed on real agents"},
            {"name": "replication", "path": "specs/Replication.tla + specs/TraceReplication.tla + specs/MCReplication*.tla + harness/src/sim.rs + lib/repl.py + lib/repl_check.py", "serves_properties": ["C01", "C03", "C05", "C06", "C07"], "kind_free_text": "TLA+ model checked by TLC; recorded walks of real agents validated against the spec; counter-examples replayed on real agents"},
            {"name": "bookkeeping", "path": "specs/Bookkeeping.tla + specs/MCBookkeeping.tla + harness/src/bk.rs + lib/prop_c02.py", "serves_properties": ["C02"], "kind_free_text": "TLA+ model checked by TLC; all edges replayed on the real crates"},
        ],
        "checks": checks,
        "not_applicable": sorted(na, key=lambda n: n["property_id"]),
        "notes": "exit codes: 0 held, 1 with VIOLATION line, 2 tool error / MODEL-MISMATCH. known_findings.json lists recorded defects; DESIGN.md explains each check.",
    }
    with open(os.path.join(ROOT, "MANIFEST.json"), "w") as f:
        json.dump(m, f, indent=1)
    print("MANIFEST.json written: %d checks, %d not applicable" % (len(checks), len(na)))

if __name__ == "__main__":
    main()
