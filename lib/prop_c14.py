"""C14 — row-level update notifications reflect every changed key and its final fate.

Decided by: specs/Updates.tla (TLC exhaustive: every history of inserts / updates / deletes / re-inserts on 2-3 keys,
candidates reaching batch_candidates in any order (async fallback, concurrent senders), flushes at any time; Complete,
Fate and Monotone as invariants).  Binding: a listener on the real update feed (HTTP API + client library) of a real
agent while local transactions commit and transactions of a second real node are merged in shuffled order and
batching; the collected notifications are judged by the same formulas (Complete, Fate) against the final table."""
import json, os, time
from concurrent.futures import ThreadPoolExecutor
import vlib

PID = "C14"
LEVEL = "model_checking"


def judge(d):
    fails = []
    notes = [n for n in d["notifications"] if n["kind"] in ("update", "delete", "upsert", "insert")]
    errs = [n for n in d["notifications"] if n["kind"] in ("error", "stream_error")]
    if errs:
        fails.append("the update feed reported %s" % json.dumps(errs[0]))
    present = set(d["final_present"])
    for k in d["changed"]:
        mine = [n for n in notes if n["key"] == k]
        if not mine:
            fails.append("key %d was changed by a committed transaction after the listener attached but no notification was delivered" % k)
            continue
        last = mine[-1]["kind"]
        if (last == "delete") != (k not in present):
            fails.append("the last notification for key %d says %r but the row %s" % (k, last, "exists" if k in present else "no longer exists"))
    return fails


def judge_orders(cases):
    """C14 on forced arrival orders: the key was changed, so a notification must arrive; the LAST one says 'delete'
    exactly when the committed history ends with an even causal length (row deleted)."""
    bad = []
    for c in cases:
        final = max(c["history"])
        if not c["notes"]:
            bad.append(("key with history %s (arrival order %s, %s): no notification delivered" % (c["history"], c["order"], c["mode"]), c)); continue
        last = c["notes"][-1]
        if (last == "delete") != (final % 2 == 0):
            bad.append(("candidates of the committed history (causal lengths) %s reached the update handle in the order %s (%s): the last notification says %r but the row %s (notifications: %s)"
                        % (c["history"], c["order"], c["mode"], last, "no longer exists" if final % 2 == 0 else "exists", c["notes"]), c))
    return bad


def run(tier):
    t0 = time.time()
    violations, mismatch = [], []
    cov = {"states": 0, "transitions": 0, "traces_validated_against_impl": 0, "samples": []}
    cfgs = [("{1, 2}", 3, 2, 4, 2, 4)] if tier == "quick" else [("{1, 2}", 3, 2, 4, 2, 5), ("{1, 2, 3}", 3, 2, 6, 3, 4), ("{1, 2}", 4, 3, 4, 2, 5)]
    for (keys, maxcl, inflight, cap, keep, writes) in cfgs:
        c = os.path.join(vlib.scratch(), "upd_%d_%d_%d.cfg" % (maxcl, inflight, writes))
        open(c, "w").write("SPECIFICATION Spec\nCONSTANTS\n Keys = %s\n MaxCl = %d\n MaxInFlight = %d\n CacheCap = %d\n CacheKeep = %d\n MaxWrites = %d\nINVARIANTS C14_Complete C14_Fate C14_Monotone\n" % (keys, maxcl, inflight, cap, keep, writes))
        r = vlib.run_tlc("Updates.tla", c, workers=6, timeout=1200)
        if r.error:
            raise vlib.ToolError("TLC Updates: %s\n%s" % (r.error, r.output[-1200:]))
        vlib.log("[C14] TLC Updates %s: %d generated, %d distinct, violated=%s (%.0fs)" % ((keys, maxcl, inflight, writes), r.generated, r.distinct, r.violated, r.wall))
        cov["states"] += r.distinct; cov["transitions"] += r.generated
        if r.violated:
            mismatch.append("Updates.tla violates %s" % r.violated)
    nwalks = 10 if tier == "quick" else 60
    seeds = [vlib.seed() * 1000 + i for i in range(nwalks)]

    def one(seed):
        out = os.path.join(vlib.scratch(), "upd.%d.json" % seed)
        p = vlib.run_vh(["updates-walk", str(seed), "40", "3", out], timeout=600, env_extra={"VH_THREADS": "4"})
        if p.returncode != 0:
            return seed, None, p.stderr[-800:]
        return seed, json.load(open(out)), None
    with ThreadPoolExecutor(max_workers=6) as ex:
        res = list(ex.map(one, seeds))
    nn = 0
    for (seed, d, err) in res:
        if d is None:
            mismatch.append("seed %d: harness failed: %s" % (seed, err[:300])); continue
        nn += len(d["notifications"])
        fl = judge(d)
        for t in fl[:2]:
            rp = vlib.write_replay(PID, "walk", d)
            if len(violations) < 6:
                violations.append((t, rp))
        if len(cov["samples"]) < 2:
            cov["samples"].append({"notifications": d["notifications"][:12], "changed": d["changed"], "final_present": d["final_present"]})
    # every arrival order of the candidates of short per-key histories (the Recv(i) nondeterminism of Updates.tla)
    # on the real update handle: match_changes -> batch_candidates -> listener
    oo = os.path.join(vlib.scratch(), "updorder.ndjson")
    p = vlib.run_vh(["upd-order", oo], timeout=600)
    if p.returncode != 0:
        raise vlib.ToolError("vh upd-order failed: %s" % p.stderr[-800:])
    cases = [json.loads(l) for l in open(oo)]
    bad_orders = judge_orders(cases)
    for (t, c) in bad_orders[:3]:
        violations.append((t, vlib.write_replay(PID, "order", c)))
    cov["forced_arrival_orders"] = {"cases": len(cases), "histories": sorted({tuple(c["history"]) for c in cases}), "notifications": sum(len(c["notes"]) for c in cases), "failed": len(bad_orders)}
    nn += sum(len(c["notes"]) for c in cases)
    cov["traces_validated_against_impl"] = len([1 for r in res if r[1] is not None]) + len(cases)
    cov["notifications_judged"] = nn
    cov["evaluations"] = nn
    cov["distinct_nontrivial"] = cov["traces_validated_against_impl"]
    cov["exhaustive"] = False
    cov["rule"] = "model: all histories of <= 4-5 writes on 2-3 keys with causal lengths <= 3-4 and any arrival order of <= 2-3 in-flight candidates; binding: seeded histories (local + remote, shuffled / duplicated delivery) with the real feed judged; plus every arrival order of the candidates of 5 per-key histories (2-4 transactions, insert / delete / re-insert / update) on the real update handle, spaced and in one batching window"
    vlib.write_evidence(PID, tier, LEVEL, cov, time.time() - t0, violations=len(violations), assumptions=[
        "the cl_cache is larger than the number of distinct keys in flight: with eviction (2000 -> 1000 entries) plus reordering TLC finds a stale notification after a newer one (documented in DESIGN.md, not reproducible on the real code without > 2000 hot keys)",
        "Monotone cannot be observed on the real feed (notifications carry no causal length); it is checked on the model and through Fate on the real runs"])
    return {"violations": violations, "mismatch": mismatch[:3]}


def replay(path):
    d = json.load(open(path))
    if "history" in d:
        return {"violations": [(t, path) for (t, _) in judge_orders([d])]}
    fl = judge(d)
    return {"violations": [(t, path) for t in fl[:2]]}
