"""C13 — subscriptions survive a clean restart and are discarded after an unclean one.

Decided by: specs/SubLifecycle.tla (TLC exhaustive: creation, initial query, changes whose match step runs later,
trip, drop_handles, drain, marker write, kill at any point, start).  Binding: a real agent is shut down in the order
of command/agent.rs and restarted on the same directory (graceful), or its data directory is copied while it runs and
a new agent is started on the copy (abrupt); marker, restoration, rows, change ids are judged by the property.
Known finding S7 (a write acknowledged right before the shutdown can be matched after drop_handles) is probed."""
import json, os, time
from concurrent.futures import ThreadPoolExecutor
import vlib

PID = "C13"
LEVEL = "model_checking"


def judge(d):
    f = []
    if d.get("timeout"):
        raise vlib.ToolError("sub-life scenario could not be set up: %s" % d["timeout"])
    if d["mode"] == "abrupt":
        if d.get("state_at_stop") != "completed":
            if d.get("restored"):
                f.append("a subscription whose previous run did not finish cleanly (state %r) was restored" % d.get("state_at_stop"))
            if d.get("dir_exists_after_start"):
                f.append("the directory of an uncleanly stopped subscription was not removed at start")
            if "error" not in (d.get("attach_after_start") or {}):
                f.append("a client could attach to a subscription that was not stopped cleanly")
        return f
    if d.get("state_at_stop") != "completed":
        f.append("after a graceful shutdown the subscription is marked %r, not 'completed'" % d.get("state_at_stop"))
        return f
    if not d.get("restored"):
        f.append("a cleanly stopped subscription was not restored (id lost)")
        return f
    snap = d.get("attach_after_restart") or {}
    if snap.get("timeout"):
        raise vlib.ToolError("the snapshot of the restored subscription did not arrive within 90 s (machine overloaded?)")
    if "error" in snap:
        f.append("attaching to the restored subscription failed: %s" % snap["error"])
        return f
    if snap.get("rows") != d.get("node_rows_after_restart"):
        f.append("after the restart the subscription's rows differ from its query on the database: %s vs %s" % (snap.get("rows"), d.get("node_rows_after_restart")))
    if snap.get("eoq") != d.get("max_change_id_at_stop"):
        f.append("the change log of the restored subscription ends at %s, the last change produced before shutdown was %s" % (snap.get("eoq"), d.get("max_change_id_at_stop")))
    if d.get("first_change_after_restart") != d.get("max_change_id_at_stop", 0) + 1:
        f.append("the first change after the restart has id %s, expected %s" % (d.get("first_change_after_restart"), d.get("max_change_id_at_stop", 0) + 1))
    if d["mode"] == "restored-abrupt":
        s2 = d.get("second_life")
        if s2 is None:
            if not f:
                raise vlib.ToolError("restored-abrupt scenario did not reach its second lifetime")
            return f
        if (s2.get("attach_after_start") or {}).get("timeout"):
            raise vlib.ToolError("snapshot after the second start did not arrive")
        # the restored run was killed (files copied while it was live and had processed a change): unclean by construction
        if s2.get("restored"):
            f.append("a restored subscription whose second run was killed (marker at kill: %r) was restored again instead of being discarded" % s2.get("marker_at_kill"))
        if s2.get("dir_exists_after_start"):
            f.append("the directory of a restored subscription whose second run was killed was not removed at start")
        if "error" not in (s2.get("attach_after_start") or {}):
            f.append("a client could attach to a subscription whose last run was killed")
    return f


def run(tier):
    t0 = time.time()
    violations, mismatch, known = [], [], []
    cov = {"states": 0, "transitions": 0, "traces_validated_against_impl": 0, "samples": []}
    kf = any(k["id"] == "S7" for k in vlib.open_findings(PID))
    for (guard, expect_ok) in ((True, True), (False, not kf)):
        c = os.path.join(vlib.scratch(), "sl_%s.cfg" % guard)
        open(c, "w").write("SPECIFICATION Spec\nCONSTANTS\n MaxChanges = 3\n GuardedDrop = %s\n RestoreMarksRunning = TRUE\nINVARIANTS C13_CompletedIsCurrent C13_ServedIsCurrent\nPROPERTIES C13_RestoreOnlyCompleted C13_UncleanRemoved\n" % ("TRUE" if guard else "FALSE"))
        r = vlib.run_tlc("SubLifecycle.tla", c, workers=4, timeout=900)
        if r.error:
            raise vlib.ToolError("TLC SubLifecycle: %s\n%s" % (r.error, r.output[-1200:]))
        cov["states"] += r.distinct; cov["transitions"] += r.generated
        vlib.log("[C13] TLC SubLifecycle GuardedDrop=%s: %d distinct, violated=%s" % (guard, r.distinct, r.violated))
        if guard and r.violated:
            mismatch.append("SubLifecycle.tla violates %s even outside the region of S7" % r.violated)
    jobs = [("graceful", 300, s) for s in range(3 if tier == "quick" else 10)] + [("abrupt", 0, s) for s in range(2 if tier == "quick" else 6)] + [("restored-abrupt", 300, 50 + s) for s in range(2 if tier == "quick" else 6)]
    probes = [("graceful", 0, 100 + s) for s in range(6)] if kf else []

    def one(job):
        mode, gap, seed = job
        out = os.path.join(vlib.scratch(), "sublife.%s.%d.%d.json" % (mode, gap, seed))
        p = vlib.run_vh(["sub-life", str(vlib.seed() * 100 + seed), mode, str(gap), out], timeout=600, env_extra={"VH_THREADS": "4"})
        if p.returncode != 0:
            return job, None, p.stderr[-600:]
        d = json.load(open(out))
        # a scenario that could not be set up on a busy machine (the matcher did not get to the last write in 90 s, the
        # snapshot did not arrive) is repeated before it is reported as a tool error
        for attempt in range(2):
            snap = d.get("attach_after_restart") or {}
            if not (d.get("timeout") or snap.get("timeout")):
                break
            vlib.log("[C13] scenario %s not set up (%s), repeating" % (job, d.get("timeout") or "snapshot timeout"))
            p = vlib.run_vh(["sub-life", str(vlib.seed() * 100 + seed), mode, str(gap), out], timeout=900, env_extra={"VH_THREADS": "4"})
            if p.returncode != 0:
                return job, None, p.stderr[-600:]
            d = json.load(open(out))
        return job, d, None
    # one agent per process at a time is required by the process-wide pending-task counter; processes run in parallel
    with ThreadPoolExecutor(max_workers=4) as ex:
        res = list(ex.map(one, jobs + probes))
    for (job, d, err) in res:
        if d is None:
            mismatch.append("%s: harness failed: %s" % (job, err[:300])); continue
        fl = judge(d)
        if job in probes:
            if fl and not known:
                known.append("S7 a write acknowledged immediately before a graceful shutdown is missing from the restored subscription although it was marked completed (%s)" % fl[0][:200])
            continue
        cov["traces_validated_against_impl"] += 1
        for t in fl[:2]:
            rp = vlib.write_replay(PID, job[0], d)
            if len(violations) < 6:
                violations.append((t, rp))
        if len(cov["samples"]) < 2:
            cov["samples"].append({k: d[k] for k in d if k not in ("node_rows_at_stop",)})
    cov["evaluations"] = len(res)
    cov["distinct_nontrivial"] = cov["traces_validated_against_impl"]
    cov["exhaustive"] = False
    cov["rule"] = "model: every interleaving of the life-cycle actions with <= 3 changes, kill at any point; binding: graceful stop/restart with the last write >= 300 ms before the trip, abrupt stop by copying the data directory of a running agent, in the first lifetime and in the lifetime after a restore"
    vlib.write_evidence(PID, tier, LEVEL, cov, time.time() - t0, violations=len(violations), assumptions=[
        "the graceful runs keep the last acknowledged write 300 ms away from the shutdown (region of known finding S7 excluded; probed with 0 ms)",
        "abrupt = files copied while the agent runs (process death), not power loss"])
    return {"violations": violations, "mismatch": mismatch[:3], "known": known}


def replay(path):
    d = json.load(open(path))
    fl = judge(d)
    return {"violations": [(t, path) for t in fl[:2]]}
