"""C20 — database writers are mutually exclusive, prioritised and never deadlock.

Decided by: specs/WritePool.tla (TLC: exclusivity, one guard, priority at every hand-off, liveness / no leak under
fairness, with cancellation at every stage) and specs/Locks.tla (TLC deadlock check of the composition of lock
programs under a FIFO write-preferring RwLock).  Binding: a stress run of a real agent (local writes, remote
applies, buffered applies, sync-state generation, maintenance, random cancellation) records the write-pool and
lock-registry events; exclusivity and the priority rule are judged on the recorded hand-offs, and the lock programs
the current code actually performs are extracted from the events and handed to TLC as the constant of Locks.tla."""
import json, os, time, random, itertools
import vlib

PID = "C20"
LEVEL = "model_checking"
CLASS = {"priority": 0, "normal": 1, "low": 2}
BOOKIE_LABELS = ("(ensure)", "for_actor_blocking", "replace_actor", "handle_change(get)", "process_sync get actor")


def tla_prog(prog):
    return "<<" + ", ".join('[op |-> "%s", lock |-> "%s", kind |-> "%s"]' % st for st in prog) + ">>"


def locks_check(progs, ntasks, name):
    """TLC deadlock check over every combination (with repetition) of `ntasks` programs"""
    combos = list(itertools.combinations_with_replacement(range(len(progs)), ntasks))
    mod = "MCLocks_%s" % name
    body = ["---- MODULE %s ----" % mod, "EXTENDS Locks", "T == 1..%d" % ntasks]
    for i, p in enumerate(progs):
        body.append("P%d == %s" % (i, tla_prog(p)))
    body.append("MCCombos == {" + ", ".join("<<" + ", ".join("P%d" % i for i in c) + ">>" for c in combos) + "}")
    body.append("====")
    path = os.path.join(vlib.SPECS, mod + ".tla")
    open(path, "w").write("\n".join(body) + "\n")
    cfg = os.path.join(vlib.scratch(), mod + ".cfg")
    open(cfg, "w").write("SPECIFICATION Spec\nCONSTANTS\n Tasks <- T\n Combos <- MCCombos\n")
    try:
        r = vlib.run_tlc(mod + ".tla", cfg, workers=8, timeout=1800, deadlock=True, heap="8g")
    finally:
        os.remove(path)
    return r, len(combos)


HAND = {
    "local_write": [("acq", "conn", "w"), ("acq", "booked_self", "w"), ("rel", "booked_self", "w"), ("rel", "conn", "w")],
    "ingest": [("acq", "bookie", "w"), ("rel", "bookie", "w"), ("acq", "booked_a", "r"), ("rel", "booked_a", "r"), ("acq", "conn", "w"),
               ("acq", "bookie", "w"), ("rel", "bookie", "w"), ("acq", "booked_a", "w"), ("rel", "booked_a", "w"),
               ("acq", "bookie", "w"), ("rel", "bookie", "w"), ("acq", "booked_a", "w"), ("rel", "booked_a", "w"),
               ("acq", "bookie", "w"), ("rel", "bookie", "w"), ("acq", "booked_a", "w"), ("rel", "booked_a", "w"), ("rel", "conn", "w")],
    "buffered_apply": [("acq", "conn", "w"), ("acq", "bookie", "w"), ("rel", "bookie", "w"), ("acq", "booked_a", "w"), ("rel", "booked_a", "w"), ("rel", "conn", "w")],
    "generate_sync": [("acq", "bookie", "r"), ("rel", "bookie", "r"), ("acq", "booked_self", "r"), ("rel", "booked_self", "r"), ("acq", "booked_a", "r"), ("rel", "booked_a", "r")],
    "reconcile": [("acq", "conn", "w"), ("acq", "bookie", "r"), ("acq", "booked_a", "w"), ("rel", "booked_a", "w"), ("rel", "bookie", "r"), ("rel", "conn", "w")],
}


def validate_pool_trace(events, path):
    """None if TLC accepts the wp_* events as a behaviour of TraceWritePool.tla; ("violation"|"mismatch", text) otherwise"""
    import re
    ids = {}
    n = 0
    with open(path, "w") as f:
        for e in events:
            if not e["ev"].startswith("wp_"):
                continue
            o = {"ev": e["ev"]}
            if "req" in e:
                o["req"] = ids.setdefault(e["req"], len(ids) + 1)
            for k in ("class", "stage"):
                if k in e:
                    o[k] = e[k]
            f.write(json.dumps(o) + "\n"); n += 1
    if n == 0:
        return None
    c = os.path.join(vlib.scratch(), "twp.cfg")
    if not os.path.exists(c):
        tmp = c + ".%d" % os.getpid()
        open(tmp, "w").write("SPECIFICATION TraceSpec\nINVARIANTS C20_Exclusive C20_OneGuard\nPOSTCONDITION TraceAccepted\n")
        os.replace(tmp, c)
    r = vlib.run_tlc("TraceWritePool.tla", c, workers=1, timeout=900, dfs=True, heap="3g", env_extra={"TRACE": path}, dump_trace=False)
    if r.violated:
        return ("violation", "the recorded write-pool events violate %s of TraceWritePool.tla (more than one holder of the write connection / guard)" % r.violated)
    m = re.search(r'"first unmatched event", (\d+)', r.output)
    if m:
        i = int(m.group(1))
        evs = [json.loads(l) for l in open(path)]
        return ("mismatch", "TLC rejects the recorded write-pool events at event %d (%s): not a behaviour of the single-writer protocol" % (i, json.dumps(evs[i - 1]) if 0 < i <= len(evs) else "?"))
    if r.ok and r.distinct >= n:
        return None
    return ("mismatch", "TLC could not validate the write-pool events: %s" % ((r.error or "")[:200]))


def analyse(events):
    """-> (failures, programs) from one recorded stress run"""
    fails = []
    # ---- write pool: exclusivity and priority on the recorded hand-offs
    holding = None
    cls, enq_end, waiting = {}, {}, set()
    last_handoff = 0
    for e in events:
        ev = e["ev"]
        if ev == "wp_enq_start":
            cls[e["req"]] = CLASS[e["class"]]; waiting.add(e["req"])
        elif ev == "wp_enq_end":
            enq_end[e["req"]] = e["seq"]
        elif ev == "wp_pick":
            c = CLASS[e["class"]]
            late = [q for q in waiting if cls[q] < c and q in enq_end and enq_end[q] < last_handoff]
            if late:
                fails.append("hand-off to a %s request at seq %d while request %d of a more urgent class had been waiting since before the previous release" % (e["class"], e["seq"], late[0]))
        elif ev == "wp_guard":
            waiting.discard(e["req"])
        elif ev in ("wp_conn", "wp_hold"):
            if holding is not None and holding != e["req"]:
                fails.append("two write connections handed out at once: requests %s and %s (seq %d)" % (holding, e["req"], e["seq"]))
            holding = e["req"]
        elif ev == "wp_end":
            waiting.discard(e["req"])
            if holding == e["req"]:
                holding = None
            last_handoff = e["seq"]
        elif ev == "wp_idle":
            last_handoff = e["seq"]
        elif ev == "final":
            if not e["completed"]:
                fails.append("stress run did not complete: %d of %d activities finished within the watchdog (a request or lock blocks for ever)" % (e["done"], e["total"]))
    # ---- lock programs actually performed, per task
    meta, obj = {}, {}
    per_task = {}
    bookie_obj = None
    for e in events:
        ev = e["ev"]
        t = e.get("task", "")
        if ev == "lock_acq":
            meta[(e["reg"], e["id"])] = (e["label"], e["kind"], t)
        elif ev == "lock_obj":
            obj[(e["reg"], e["id"])] = e["obj"]
            lab = meta.get((e["reg"], e["id"]), ("", "", ""))[0]
            if any(b in lab for b in BOOKIE_LABELS):
                bookie_obj = e["obj"]
            per_task.setdefault(meta[(e["reg"], e["id"])][2], []).append(("acq", (e["reg"], e["id"])))
        elif ev == "lock_rel":
            k = (e["reg"], e["id"])
            if k in meta:
                per_task.setdefault(meta[k][2], []).append(("rel", k))
        elif ev == "wp_enq_start":
            per_task.setdefault(t, []).append(("acq", ("conn", e["req"])))
        elif ev == "wp_end":
            # the end event is emitted by whichever task drops the request; attribute to the requester
            per_task.setdefault(t, []).append(("rel", ("conn", e["req"])))
    programs = set()
    for t, steps in per_task.items():
        if t == "":
            continue
        held, cur, names = set(), [], {}
        for (op, k) in steps:
            if k[0] == "conn":
                lock, kind = "conn", "w"
            else:
                o = obj.get(k)
                kind = "w" if meta[k][1] == "write" else "r"
                if o == bookie_obj:
                    lock = "bookie"
                else:
                    lock = names.setdefault(o, "booked_%d" % (len(names) + 1))
            if op == "acq":
                held.add(k); cur.append(("acq", lock, kind))
            else:
                if k not in held:
                    continue
                held.discard(k); cur.append(("rel", lock, kind))
                if not held:
                    programs.add(tuple(cur)); cur, names = [], {}
    return fails, programs


def run(tier):
    t0 = time.time()
    violations, mismatch = [], []
    cov = {"states": 0, "transitions": 0, "traces_validated_against_impl": 0, "samples": []}
    # (1) WritePool.tla
    cfg = os.path.join(vlib.scratch(), "wp.cfg")
    open(cfg, "w").write("SPECIFICATION FairSpec\nCONSTANTS\n Reqs <- R\n ClassOf <- MCClassOf\nCONSTRAINT PickBound\nINVARIANTS C20_Exclusive C20_OneGuard C20_Priority\nPROPERTIES C20_Live\n")
    r = vlib.run_tlc("MCWritePool.tla", cfg, workers=8, timeout=1800, heap="8g")
    if r.error:
        raise vlib.ToolError("TLC WritePool: %s\n%s" % (r.error, r.output[-1200:]))
    vlib.log("[C20] TLC WritePool: %d generated, %d distinct, violated=%s (%.0fs)" % (r.generated, r.distinct, r.violated, r.wall))
    cov["states"] += r.distinct; cov["transitions"] += r.generated
    if r.violated:
        mismatch.append("WritePool.tla violates %s" % r.violated)
    # (2) Locks.tla on the hand-written programs (as read from the code)
    hp = list(HAND.values())
    r2, nc = locks_check(hp, 3, "hand")
    vlib.log("[C20] TLC Locks (hand-written programs, %d combinations of 3): %d distinct, deadlock=%s (%.0fs)" % (nc, r2.distinct, r2.deadlock, r2.wall))
    if r2.error and not r2.deadlock:
        raise vlib.ToolError("TLC Locks: %s\n%s" % (r2.error, r2.output[-1200:]))
    cov["states"] += r2.distinct; cov["transitions"] += r2.generated
    if r2.deadlock:
        mismatch.append("the hand-written lock programs deadlock in Locks.tla")
    # (3) stress the real agent, judge the hand-offs, extract the lock programs
    nruns = 4 if tier == "quick" else 24
    rounds = 12 if tier == "quick" else 25
    progs = set()
    nev = 0
    accepted = 0
    for i in range(nruns):
        seed = vlib.seed() * 100 + i
        out = os.path.join(vlib.scratch(), "ps.%d.ndjson" % seed)
        p = vlib.run_vh(["pool-stress", str(seed), str(rounds), out], timeout=900, env_extra={"VH_THREADS": "4"})
        if p.returncode != 0:
            raise vlib.ToolError("vh pool-stress failed: %s" % p.stderr[-1500:])
        events = [json.loads(l) for l in open(out)]
        nev += len(events)
        fl, pr = analyse(events)
        progs |= pr
        # the write-pool events as a behaviour of the single-writer protocol: validated by TLC (TraceWritePool.tla)
        tv = validate_pool_trace(events, out + ".wp.ndjson")
        accepted += 1 if tv is None else 0
        if tv is not None:
            keep = os.path.join(vlib.REPLAYS, "C20-stress-%d.ndjson" % seed)
            os.makedirs(vlib.REPLAYS, exist_ok=True)
            import shutil; shutil.copy(out, keep)
            if tv[0] == "violation":
                violations.append((tv[1], keep))
            elif not fl and len(mismatch) < 3:
                mismatch.append("seed %d: %s (%s)" % (seed, tv[1], keep))
        for t in fl[:2]:
            keep = os.path.join(vlib.REPLAYS, "C20-stress-%d.ndjson" % seed)
            os.makedirs(vlib.REPLAYS, exist_ok=True)
            import shutil; shutil.copy(out, keep)
            if len(violations) < 6:
                violations.append((t, keep))
        if i == 0:
            cov["samples"] = [{"program": list(p)} for p in sorted(pr, key=len)[-3:]]
    plist = sorted(progs, key=lambda p: (len(p), p))
    vlib.log("[C20] %d distinct lock programs extracted from %d events" % (len(plist), nev))
    cov["extracted_programs"] = len(plist)
    if plist:
        # all pairs of observed programs; plus triples of the longest ones
        r3, nc3 = locks_check(plist, 2, "obs2")
        cov["states"] += r3.distinct; cov["transitions"] += r3.generated
        if r3.error and not r3.deadlock:
            raise vlib.ToolError("TLC Locks(observed): %s\n%s" % (r3.error, r3.output[-1200:]))
        dead = r3.deadlock
        trace = r3.trace
        big = sorted(plist, key=len)[-4:]
        r4, nc4 = locks_check(big, 3, "obs3")
        cov["states"] += r4.distinct; cov["transitions"] += r4.generated
        dead = dead or r4.deadlock
        trace = trace or r4.trace
        vlib.log("[C20] TLC Locks (observed programs): %d pairs + %d triples, deadlock=%s" % (nc3, nc4, dead))
        if dead:
            rp = vlib.write_replay(PID, "deadlock", {"programs": [list(p) for p in plist], "tlc_trace": trace[:120]})
            violations.append(("the lock programs the code performs can deadlock under a FIFO write-preferring RwLock (TLC counter-example)", rp))
        cov["combinations_checked"] = nc3 + nc4
    else:
        mismatch.append("no lock program could be extracted from the stress runs (hooks missing?)")
    cov["traces_validated_against_impl"] = nruns
    cov["events_validated"] = nev
    cov["pool_traces_accepted_by_tlc"] = accepted
    cov["evaluations"] = nev
    cov["distinct_nontrivial"] = len(plist)
    cov["exhaustive"] = False
    cov["rule"] = "model: 4 requesters of mixed classes with cancellation at every stage; lock programs of 3 concurrent tasks; binding: seeded stress runs, every hand-off judged, every distinct lock program observed composed pairwise and in triples by TLC"
    vlib.write_evidence(PID, tier, LEVEL, cov, time.time() - t0, violations=len(violations), assumptions=[
        "tokio's RwLock is FIFO and write-preferring (documented behaviour), modelled so in Locks.tla",
        "a more urgent request only counts as waiting at a hand-off if its enqueue completed before the previous release (event-order margin)",
        "booked locks of different actors are conservatively identified when programs are composed"])
    return {"violations": violations, "mismatch": mismatch}


def replay(path):
    events = [json.loads(l) for l in open(path)]
    fl, pr = analyse(events)
    return {"violations": [(t, path) for t in fl[:2]]}
