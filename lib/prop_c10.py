"""C10 — load shedding and duplicate suppression never lose a change for good.

Decided by: specs/Ingest.tla (TLC exhaustive on a small instance: cache soundness at sequence granularity, cost and
queue bounds) + recorded runs of the real ingest loop (handle_changes) under a forced overload, validated event by
event by TLC against specs/TraceIngest.tla; the conclusion of the liveness clause (every re-offered changeset is held
after the overload ends) is observed directly on the real node."""
import json, os, re, time, random, shutil
from concurrent.futures import ThreadPoolExecutor
import vlib

PID = "C10"
LEVEL = "model_checking"
FIX_S3 = True   # /repo after the fix commit; the tree as found evicted by the incoming changeset's actor
INVS = "C10_CacheSoundSeqs C10_CostOk C10_QueueBound"


def cfg(spec, vs, qlen, chunk, maxinf, fix_s3=None, post=False, invs=INVS, maxseq=1, may_fail=False, fix_s15=True):
    p = os.path.join(vlib.scratch(), "ingest_%s_%d_%d_%d_%s_%d_%d%d.cfg" % (spec, maxinf, qlen, chunk, "".join(ch for ch in vs if ch.isdigit()), maxseq, may_fail, fix_s15))
    with open(p, "w") as f:
        f.write("SPECIFICATION %s\nCONSTANTS\n Actors = {1, 2}\n Vs = %s\n MaxSeq = %d\n QLen = %d\n Chunk = %d\n MaxInflight = %d\n SeenMax = %d\n Keep = 0\n FixS3 = %s\n ApplyMayFail = %s\n FixS15 = %s\n FixEmptySeen = FALSE\nINVARIANTS %s\n"
                % (spec, vs, maxseq, qlen, chunk, maxinf, qlen, "TRUE" if (FIX_S3 if fix_s3 is None else fix_s3) else "FALSE", "TRUE" if may_fail else "FALSE", "TRUE" if fix_s15 else "FALSE", invs))
        if post:
            f.write("POSTCONDITION TraceAccepted\n")
    return p


def oracle(events):
    """C10 on the recorded decisions themselves: a changeset suppressed as 'seen' must be covered, sequence by sequence,
    by what the node holds or by changesets still queued / in flight."""
    held_full, part, pending = set(), {}, []   # pending: list of changes (dicts) queued or in flight
    fails = []

    def covered(c):
        key = (c["a"], c["v"])
        if c["k"] == "empty":
            return None  # suppression of empties is the recorded finding S2e, judged separately
        for s in range(c["lo"], c["hi"] + 1):
            ok = (key in held_full) or s in part.get(key, set()) or any(
                p["a"] == c["a"] and p["v"] == c["v"] and (p["k"] == "empty" or p["lo"] <= s <= p["hi"]) for p in pending)
            if not ok:
                return False
        return True
    for i, ev in enumerate(events):
        e = ev["ev"]
        if e == "recv":
            if ev["decision"] == "seen" and covered(ev["c"]) is False:
                fails.append("changeset %s suppressed as already seen at event %d although it is neither held nor queued nor in flight" % (json.dumps(ev["c"]), i + 1))
            if ev["decision"] == "queued":
                if ev["dropped"]["k"] != "none":
                    d = ev["dropped"]
                    for j, p in enumerate(pending):
                        if {k: p[k] for k in d} == d and p.get("_q"):
                            pending.pop(j); break
                    # the dropped changeset must not stay marked as seen unless something else covers it
                    if d["k"] == "full":
                        inc = ev["c"]
                        for s in ev.get("still_seen", []):
                            by_incoming = inc["k"] == "full" and inc["a"] == d["a"] and inc["v"] == d["v"] and inc["lo"] <= s <= inc["hi"]
                            ok = by_incoming or ((d["a"], d["v"]) in held_full) or s in part.get((d["a"], d["v"]), set()) or any(
                                p["a"] == d["a"] and p["v"] == d["v"] and (p["k"] == "empty" or p["lo"] <= s <= p["hi"]) for p in pending)
                            if not ok:
                                fails.append("changeset %s was dropped from the full queue at event %d but seq %d of it stays marked as seen although nothing held, queued or in flight covers it: re-offers will be suppressed" % (json.dumps(d), i + 1, s))
                                break
                c = dict(ev["c"]); c["_q"] = True
                pending.append(c)
        elif e == "spawn":
            for b in ev["batch"]:
                for p in pending:
                    if {k: p[k] for k in b} == b and p.get("_q"):
                        p["_q"] = False; break
        elif e == "commit":
            for pr in ev["processed"]:
                for v in range(pr["vlo"], pr["vhi"] + 1):
                    key = (ev["a"], v)
                    if pr["partial"]:
                        for (a, b) in pr["seqs"]:
                            part.setdefault(key, set()).update(range(a, b + 1))
                    else:
                        held_full.add(key); part.pop(key, None)
        elif e == "done":
            # changesets the loop forgot because their batch did not book them are no longer on their way
            for d in ev.get("forgotten", []):
                for j, p in enumerate(pending):
                    if not p.get("_q") and {k: p[k] for k in d} == d:
                        pending.pop(j); break
            # in-flight changesets that are now held leave the pending set
            pending = [p for p in pending if p.get("_q") or not (((p["a"], p["v"]) in held_full) or (p["k"] == "full" and set(range(p["lo"], p["hi"] + 1)) <= part.get((p["a"], p["v"]), set())))]
        elif e == "final":
            if ev["not_held"]:
                nh = [x for x in ev["not_held"] if x[1] != 3]
                if nh:
                    fails.append("after the overload ended and three more offers, changesets %s are still not held" % json.dumps(nh[:4]))
    return fails


def walk(seed, qlen, chunk, nvers, steps, nseqs=2):
    out = os.path.join(vlib.scratch(), "ing.%d.ndjson" % seed)
    p = vlib.run_vh(["ingest-walk", str(seed), str(qlen), str(chunk), str(nvers), str(steps), out], timeout=600, env_extra={"VH_NSEQS": str(nseqs)})
    if p.returncode != 0:
        return seed, None, {"error": p.stderr[-1500:]}
    c = cfg("TraceSpec", "{1, 2, 3}", qlen, chunk, 5, post=True, maxseq=nseqs - 1)
    r = vlib.run_tlc("TraceIngest.tla", c, workers=1, timeout=900, dfs=True, heap="3g", env_extra={"TRACE": out}, dump_trace=False)
    nev = sum(1 for _ in open(out))
    m = re.search(r'"first unmatched event", (\d+)', r.output)
    res = {"events": nev, "violated": r.violated, "accepted": bool(r.ok and not m and not r.violated), "first_unmatched": int(m.group(1)) if m else None,
           "error": None if (r.ok or m or r.violated) else (r.error or "")[:600]}
    return seed, out, res


def run(tier):
    t0 = time.time()
    violations, mismatch, known = [], [], []
    cov = {"states": 0, "transitions": 0, "traces_validated_against_impl": 0, "samples": []}
    # (Vs, QLen, Chunk, MaxInflight, ApplyMayFail, MaxSeq, time budget): with ApplyMayFail batches may end without booking
    # their changesets (and the loop forgets them, FixS15); that instance is exhaustive with one-sequence versions and
    # explored under a time budget with two-sequence versions
    mcs = [("{1}", 2, 2, 2, False, 1, None), ("{1}", 2, 2, 2, True, 0, None)] if tier == "quick" else \
          [("{1}", 2, 2, 2, False, 1, None), ("{1}", 3, 2, 2, False, 1, None), ("{1}", 2, 1, 3, False, 1, None),
           ("{1}", 2, 2, 2, True, 0, None), ("{1}", 3, 2, 2, True, 0, None), ("{1}", 2, 2, 2, True, 1, 600)]
    cov["incomplete_instances"] = []
    for (vs, qlen, chunk, maxinf, may_fail, maxseq, budget) in mcs:
        r = vlib.run_tlc("Ingest.tla", cfg("Spec", vs, qlen, chunk, maxinf, may_fail=may_fail, maxseq=maxseq), workers=8, timeout=3000, heap="12g", coverage=(tier == "thorough"), budget=budget)
        if getattr(r, "budget_exhausted", False):
            cov["incomplete_instances"].append([vs, qlen, chunk, maxinf, may_fail, maxseq, r.distinct])
        if r.error:
            raise vlib.ToolError("TLC Ingest: %s\n%s" % (r.error, r.output[-1200:]))
        vlib.log("[C10] TLC Ingest Vs=%s QLen=%d Chunk=%d MaxInflight=%d ApplyMayFail=%s: %d generated, %d distinct, violated=%s (%.0fs)" % (vs, qlen, chunk, maxinf, may_fail, r.generated, r.distinct, r.violated, r.wall))
        cov["states"] += r.distinct; cov["transitions"] += r.generated
        if r.violated:
            rp = vlib.write_replay(PID, "model-" + r.violated, {"invariant": r.violated, "actions": [(n, c) for (n, c, s) in (r.ce or [])]})
            mismatch.append("Ingest.tla violates %s on its own (%s); the recorded runs decide for the code" % (r.violated, rp))
    nwalks = 10 if tier == "quick" else 80
    seeds = [vlib.seed() * 1000 + i for i in range(nwalks)]
    # few versions split into many chunks keep the cache below its trim threshold (stale entries survive);
    # many versions exercise the trim
    shapes = [(3, 1, 1, 60, 6), (2, 2, 3, 45, 2), (3, 2, 1, 60, 8), (2, 1, 3, 45, 2)]
    with ThreadPoolExecutor(max_workers=6) as ex:
        results = list(ex.map(lambda s: walk(s, *shapes[s % len(shapes)]), seeds))
    acc = 0; nev = 0
    for (seed, tr, res) in results:
        if tr is None:
            mismatch.append("seed %d: harness failed: %s" % (seed, res["error"][:300])); continue
        events = [json.loads(l) for l in open(tr)]
        nev += len(events)
        fl = oracle(events[1:])
        keep = None
        if fl or not res["accepted"]:
            keep = os.path.join(vlib.REPLAYS, "C10-walk-%d.ndjson" % seed)
            os.makedirs(vlib.REPLAYS, exist_ok=True); shutil.copy(tr, keep)
        if res["violated"]:
            fl.append("invariant %s of Ingest.tla is false on the recorded run" % res["violated"])
        if fl:
            for t in fl[:2]:
                if len(violations) < 6:
                    violations.append((t, keep))
        elif not res["accepted"]:
            if len(mismatch) < 6:
                mismatch.append("seed %d: TLC rejects the recorded run at event %s but the C10 oracle holds on it (%s) %s" % (seed, res["first_unmatched"], keep, res.get("error") or ""))
        else:
            acc += 1
            if not cov["samples"]:
                cov["samples"] = events[1:12]
    cov["traces_validated_against_impl"] = acc
    cov["events_validated"] = nev
    cov["evaluations"] = nev
    cov["distinct_nontrivial"] = acc
    cov["exhaustive"] = False
    cov["rule"] = "model: all arrival sequences over 2 actors x 4 changeset shapes, queue length 2-3, batch cost 1-2, ticks and commits at any time; binding: seeded overload runs of the real loop with the write connection held, every decision of the loop checked against the specification"
    # a changeset whose first apply did not book it (table unknown at that time), re-offered later
    s15_open = any(k["id"] == "S15" for k in vlib.open_findings(PID))
    poison = {}
    for variant in ("overflow", "quiet"):
        out = os.path.join(vlib.scratch(), "poison.%s.json" % variant)
        p = vlib.run_vh(["ingest-poison", variant, out], timeout=300)
        if p.returncode != 0:
            raise vlib.ToolError("vh ingest-poison failed: %s" % p.stderr[-800:])
        poison[variant] = json.load(open(out))
    pv = poison["overflow"]
    if pv["trims"] == 0:
        mismatch.append("ingest-poison (overflow): the cache was never trimmed, scenario not set up")
    elif not pv["held_after_reoffers"]:
        violations.append(("a changeset whose first apply failed is still suppressed as 'seen' after the cache was trimmed (%d trims) and it was offered five more times: decisions %s" % (pv["trims"], pv["decisions_for_the_changeset"]),
                           vlib.write_replay(PID, "poison", pv)))
    pq = poison["quiet"]
    if not pq["held_after_reoffers"]:
        if s15_open:
            vlib.log("[C10] S15 still present: %s" % json.dumps(pq))
        else:
            violations.append(("a changeset whose first apply failed is suppressed as 'seen' on every re-offer (cache below its trim threshold): decisions %s" % pq["decisions_for_the_changeset"], vlib.write_replay(PID, "poison-quiet", pq)))
    elif s15_open:
        vlib.log("[C10] note: known finding S15 did not show in this run")
    cov["poison_scenarios"] = poison
    for k in vlib.open_findings(PID):
        known.append("%s %s" % (k["id"], k["what"]))
    vlib.write_evidence(PID, tier, LEVEL, cov, time.time() - t0, violations=len(violations), assumptions=[
        "in the recorded overload runs a batch that starts eventually commits (pool timeouts / SQLite interrupts are not driven); a batch that does not book its changesets is covered by the model with ApplyMayFail = TRUE and, on the code, by the two ingest-poison scenarios (S15, repaired)",
        "the suppression of *empty* changesets by the cache is a recorded finding (S2e) and not judged here",
        "MAX_CONCURRENT = 5 in the code; the exhaustive model uses 2-3"])
    return {"violations": violations, "mismatch": mismatch, "known": known}


def replay(path):
    events = [json.loads(l) for l in open(path)]
    fl = oracle(events[1:])
    return {"violations": [(t, path) for t in fl[:2]]}
