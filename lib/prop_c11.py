"""C11 — a subscription's rows and events always equal its query run on the database.

Decided by: specs/Matcher.tla (TLC exhaustive over histories of writes on two tables and any batching of candidates:
the definition Q(db) versus the per-table re-evaluation algorithm, per query shape).  Binding: real subscriptions
(HTTP API + client library) on a real agent while local transactions commit and transactions of a second real node
are merged in shuffled order; after every burst the fold of the received events must equal the subscribed query run
by SQLite on the node database, change ids must be consecutive and no event may be a no-op.
Known finding S5 (LEFT JOIN rewritten to INNER for the joined table) is probed and reported, not judged."""
import json, os, time
from concurrent.futures import ThreadPoolExecutor
import vlib

PID = "C11"
LEVEL = "model_checking"


def judge(d):
    fails = []
    view = {}
    last_id = None
    evs = d["events"]
    cps = {c["events_so_far"]: c for c in d["checkpoints"]}
    order = sorted(d["checkpoints"], key=lambda c: c["burst"])
    pos = 0
    for cp in order:
        while pos < cp["events_so_far"]:
            e = evs[pos]; pos += 1
            k = e["k"]
            if k == "row":
                view[e["rowid"]] = e["cells"]
            elif k == "eoq":
                last_id = e["id"]
            elif k == "change":
                if last_id is not None and e["id"] != last_id + 1:
                    fails.append("change id %d follows %d (ids must increase by exactly one)" % (e["id"], last_id))
                last_id = e["id"]
                if e["type"] == "insert":
                    if e["rowid"] in view:
                        fails.append("insert event for a row that is already part of the result (rowid %d)" % e["rowid"])
                    view[e["rowid"]] = e["cells"]
                elif e["type"] == "update":
                    if view.get(e["rowid"]) == e["cells"]:
                        fails.append("update event although the row did not change (rowid %d)" % e["rowid"])
                    if e["rowid"] not in view:
                        fails.append("update event for a row that is not part of the result (rowid %d)" % e["rowid"])
                    view[e["rowid"]] = e["cells"]
                else:
                    if e["rowid"] not in view:
                        fails.append("delete event for a row that is not part of the result (rowid %d)" % e["rowid"])
                    view.pop(e["rowid"], None)
            elif k in ("error", "client_error"):
                fails.append("the subscription stream failed: %s" % e.get("msg"))
        got = sorted(json.dumps(c) for c in view.values())
        exp = sorted(json.dumps(c) for c in cp["query"])
        if got != exp:
            fails.append("after burst %d the subscription shows %s but the query returns %s" % (cp["burst"], got, exp))
            break
    return fails


def run(tier):
    t0 = time.time()
    violations, mismatch, known = [], [], []
    cov = {"states": 0, "transitions": 0, "traces_validated_against_impl": 0, "samples": []}
    maxtx = 3 if tier == "quick" else 4
    for shape in ("plain", "filter", "inner", "left"):
        c = os.path.join(vlib.scratch(), "matcher_%s.cfg" % shape)
        open(c, "w").write('SPECIFICATION Spec\nCONSTANTS\n Ids = {1, 2}\n Vals = {1, 2}\n Shape = "%s"\n MaxTx = %d\n NullSafe = TRUE\nINVARIANTS C11_View C11_Keys\n' % (shape, maxtx))
        r = vlib.run_tlc("Matcher.tla", c, workers=6, timeout=1500)
        if r.error:
            raise vlib.ToolError("TLC Matcher: %s\n%s" % (r.error, r.output[-1200:]))
        vlib.log("[C11] TLC Matcher shape=%s: %d generated, %d distinct, violated=%s" % (shape, r.generated, r.distinct, r.violated))
        cov["states"] += r.distinct; cov["transitions"] += r.generated
        if r.violated and shape != "left":
            mismatch.append("Matcher.tla violates %s for shape %s" % (r.violated, shape))
        if shape == "left" and not r.violated:
            vlib.log("[C11] note: the left-join shape no longer diverges in the model")
    per = 3 if tier == "quick" else 16
    jobs = [(vlib.seed() * 1000 + i, kind) for kind in ("plain", "filter", "expr", "inner", "composite", "compjoin") for i in range(per)]
    probes = [(vlib.seed() * 1000 + 900 + i, "left") for i in range(2)] if any(k["id"] == "S5" for k in vlib.open_findings(PID)) else []

    def one(job):
        seed, kind = job
        out = os.path.join(vlib.scratch(), "match.%s.%d.json" % (kind, seed))
        p = vlib.run_vh(["matcher-walk", str(seed), kind, "5", out], timeout=600, env_extra={"VH_THREADS": "4"})
        if p.returncode != 0:
            return job, None, p.stderr[-600:]
        return job, json.load(open(out)), None
    with ThreadPoolExecutor(max_workers=8) as ex:
        res = list(ex.map(one, jobs + probes))
    nev = 0
    for (job, d, err) in res:
        seed, kind = job
        if d is None:
            mismatch.append("seed %d (%s): harness failed: %s" % (seed, kind, err[:300])); continue
        nev += len(d["events"])
        fl = judge(d)
        if kind == "left":
            if fl:
                known.append("S5 LEFT JOIN subscription diverges from its query when a batch touches only the joined table (seed %d: %s)" % (seed, fl[0][:160]))
            continue
        for t in fl[:2]:
            rp = vlib.write_replay(PID, "walk-" + kind, d)
            if len(violations) < 6:
                violations.append(("%s query: %s" % (kind, t), rp))
        if len(cov["samples"]) < 2:
            cov["samples"].append({"kind": kind, "events": d["events"][:8], "checkpoint": d["checkpoints"][-1]})
    known = known[:1]
    cov["traces_validated_against_impl"] = len([1 for r in res if r[1] is not None and r[0][1] != "left"])
    cov["events_judged"] = nev
    cov["evaluations"] = nev
    cov["distinct_nontrivial"] = cov["traces_validated_against_impl"]
    cov["exhaustive"] = False
    cov["rule"] = "model: all histories of <= 3-4 single-row writes on two tables over 2 ids x {2 values, NULL} with any batching, the upsert (NULL-safe change test) and delete passes of handle_candidates as separate steps, per query shape; binding: seeded histories (local + remote, shuffled) over nullable columns for a plain and a filtered projection, a computed column, an inner join, a table with a composite (integer, text) key and its join, compared with SQLite's own evaluation after every burst"
    vlib.write_evidence(PID, tier, LEVEL, cov, time.time() - t0, violations=len(violations), assumptions=[
        "LEFT JOIN subscriptions are excluded from judgement (known finding S5) and only probed",
        "keys are >= 1 and non-empty (zero-length packed keys panic in debug builds, see DESIGN.md S10)",
        "the matcher is given 1.5 s to drain after each burst (600 ms batching window)"])
    return {"violations": violations, "mismatch": mismatch[:3], "known": known}


def replay(path):
    d = json.load(open(path))
    fl = judge(d)
    return {"violations": [(t, path) for t in fl[:2]]}
