"""C16 — nodes of different clusters never exchange data.

Decided by: specs/Cluster.tla (TLC exhaustive: connections accepted before / after a cluster-id change, every declared
id incl. the absent field, sync sessions).  Binding (hook-free): two real agents; hand-built UniPayload frames over the
public Transport for every (receiver cluster, declared cluster, fresh / existing connection) and parallel_sync for
every pair of cluster ids; each observed outcome must be the one the specification allows."""
import json, os, time
import vlib

PID = "C16"
LEVEL = "model_checking"
DYNAMIC = True   # /repo after the S8 fix (the filter reads the current cluster id)


def judge(cases):
    f = []
    for c in cases:
        if c["kind"] == "uni":
            declared = 0 if c["declared"] == -1 else c["declared"]
            want = declared == c["receiver_cluster"]
            if c["applied"] != want:
                if c["applied"]:
                    f.append("a node in cluster %d applied a broadcast declaring cluster %s (%s connection)" % (c["receiver_cluster"], "absent->0" if c["declared"] == -1 else c["declared"], "existing" if c["existing_connection"] else "fresh"))
                else:
                    f.append("a node in cluster %d dropped a broadcast of its own cluster (%s connection)" % (c["receiver_cluster"], "existing" if c["existing_connection"] else "fresh"))
        elif c["kind"] == "send":
            # safety only: a member of another cluster than the sender's current one never receives its broadcast
            other = "member_cluster1_got" if c["sender_cluster"] == 0 else "member_cluster0_got"
            if c[other]:
                f.append("a change written by a node in cluster %d reached (and was applied by) the member of cluster %d: the sender addressed / stamped it for a cluster it is not in (%s its cluster id changed at run time)" % (c["sender_cluster"], 1 - c["sender_cluster"], c["phase"]))
        else:
            same = c["client_cluster"] == c["server_cluster"]
            if not same:
                if c["data_transferred"]:
                    f.append("data was transferred by a sync session between clusters %d and %d" % (c["client_cluster"], c["server_cluster"]))
                # the server answers with the DifferentCluster rejection and closes; a client still writing its handshake may
                # see the closed stream before it reads the rejection - either way the session must end in an error
                if not c["outcome"].startswith("err:"):
                    f.append("a sync session between clusters %d and %d was not refused (outcome %s)" % (c["client_cluster"], c["server_cluster"], c["outcome"]))
            else:
                if not c["data_transferred"]:
                    f.append("a sync session inside cluster %d transferred nothing (outcome %s)" % (c["client_cluster"], c["outcome"]))
    return f


def run(tier):
    t0 = time.time()
    violations, mismatch = [], []
    cov = {"states": 0, "transitions": 0, "traces_validated_against_impl": 0, "samples": []}
    ids = "{0, 1}" if tier == "quick" else "{0, 1, 2}"
    c = os.path.join(vlib.scratch(), "cluster.cfg")
    open(c, "w").write("SPECIFICATION Spec\nCONSTANTS\n Nodes = {1, 2}\n Ids = %s\n Dynamic = %s\n DynamicSend = TRUE\nINVARIANTS C16_NoCrossApply C16_NoCrossData C16_SyncRejected\n" % (ids, "TRUE" if DYNAMIC else "FALSE"))
    r = vlib.run_tlc("Cluster.tla", c, workers=6, timeout=1800, budget=600)
    if r.error:
        raise vlib.ToolError("TLC Cluster: %s\n%s" % (r.error, r.output[-1200:]))
    vlib.log("[C16] TLC Cluster: %d generated, %d distinct, violated=%s%s" % (r.generated, r.distinct, r.violated, " (time budget used up, exploration incomplete)" if r.budget_exhausted else ""))
    cov["model_complete"] = not r.budget_exhausted
    cov["states"] = r.distinct; cov["transitions"] = r.generated
    if r.violated:
        mismatch.append("Cluster.tla violates %s" % r.violated)
    runs = 1 if tier == "quick" else 3
    n = 0
    for i in range(runs):
        out = os.path.join(vlib.scratch(), "cp.%d.json" % i)
        p = vlib.run_vh(["cluster-probe", out], timeout=600, env_extra={"VH_THREADS": "4"})
        if p.returncode != 0:
            raise vlib.ToolError("vh cluster-probe failed: %s" % p.stderr[-1500:])
        d = json.load(open(out))
        n += len(d["cases"])
        fl = judge(d["cases"])
        for t in fl[:4]:
            rp = vlib.write_replay(PID, "probe", d)
            if len(violations) < 6:
                violations.append((t, rp))
        if not cov["samples"]:
            cov["samples"] = d["cases"][:6]
    cov["traces_validated_against_impl"] = n
    cov["evaluations"] = n
    cov["distinct_nontrivial"] = n
    cov["exhaustive"] = True
    cov["rule"] = "model: 2 nodes, cluster ids 0..1(2), every order of connect / change-cluster / payload / sync-start; binding: the full matrix receiver cluster x declared id (0, 1, 2, absent) x {fresh, existing connection} and every ordered pair of cluster ids for sync sessions on two real agents"
    vlib.write_evidence(PID, tier, LEVEL, cov, time.time() - t0, violations=len(violations), assumptions=[
        "the choice of sync partners / broadcast targets among mixed-cluster members is covered by C18 (Members::ring0 cluster filter) and not re-driven here",
        "cluster ids are changed through Agent::set_cluster_id (the tail of the admin command)"])
    return {"violations": violations, "mismatch": mismatch}


def replay(path):
    d = json.load(open(path))
    fl = judge(d["cases"])
    return {"violations": [(t, path) for t in fl[:3]]}
