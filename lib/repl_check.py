"""One check body for the five properties decided on the Replication specification."""
import json, os, time, random, shutil
import vlib, repl

LEVEL = "model_checking"

PROFILES = {
    # pid: (invariants TLC checks exhaustively on the model, walk shapes [(nodes, keys, steps, restart)], seed offset)
    "C01": (["C01_NoInvention", "C01_NoLoss", "C01_Converged", "C01_MergeOfAll", "NoErr"], [(3, 3, 70, False), (2, 2, 60, False)], 1000),
    "C03": (["C03_Atomic", "C03_CoveredIsPending", "C03_BufferedHaveRecord", "C02_RowsMatch", "C02_PartialRowsMatch", "NoErr"], [(2, 3, 80, False), (3, 3, 60, False)], 3000),
    "C05": (["C05_Serve", "C02_HeldIsDurable", "NoErr"], [(3, 3, 90, False), (3, 2, 70, False)], 5000),
    "C06": (["C06_AckedPresent", "C02_PartialRowsMatch", "C02_HeldIsDurable", "C02_RowsMatch", "C07_OwnHead", "C03_CoveredIsPending", "NoErr"], [(3, 3, 70, True), (2, 3, 60, True)], 6000),
    "C07": (["C07_OwnHead", "C06_AckedPresent", "C01_NoInvention", "NoErr"], [(2, 3, 50, False), (3, 2, 50, False)], 7000),
}

MC_QUICK = [dict(N=2, K=2, MaxTx=1, MaxKeysPerTx=2, MaxBatch=2, bound=5), dict(N=2, K=2, MaxTx=2, MaxKeysPerTx=2, MaxBatch=1, bound=3)]
MC_THOROUGH = [dict(N=2, K=2, MaxTx=1, MaxKeysPerTx=2, MaxBatch=2, bound=6), dict(N=2, K=2, MaxTx=2, MaxKeysPerTx=2, MaxBatch=1, bound=4),
               dict(N=3, K=2, MaxTx=1, MaxKeysPerTx=2, MaxBatch=1, bound=4)]


def mc_cfg(c, invs):
    path = os.path.join(vlib.scratch(), "repl_mc_%d_%d_%d.cfg" % (c["N"], c["MaxTx"], c["bound"]))
    with open(path, "w") as f:
        f.write("SPECIFICATION Spec\nCONSTANTS\n N = %d\n K = %d\n MaxTx = %d\n MaxKeysPerTx = %d\n MaxBatch = %d\n FixS12 = %s\n MaxMsgs = %d\n"
                % (c["N"], c["K"], c["MaxTx"], c["MaxKeysPerTx"], c["MaxBatch"], "TRUE" if repl.FIX_S12 else "FALSE", c["bound"]))
        f.write("CONSTRAINT MsgBound\nINVARIANTS " + " ".join(invs) + "\n")
    return path


def confirm_ce(pid, replay_file, n, k):
    """execute a model counter-example on real agents, validate the recorded trace, judge it"""
    out = os.path.join(vlib.scratch(), "ce.%d.ndjson" % (int(time.time() * 1000) % 10**9))
    p = vlib.run_vh(["sim-replay", replay_file, out], timeout=600)
    if p.returncode != 0:
        return [], ["harness failed on the counter-example: %s" % p.stderr[-500:]]
    r = repl.validate(out, n, k)
    keep = replay_file.replace(".json", ".trace.ndjson")
    shutil.copy(out, keep)
    return repl.judge("ce", out, r, None)


def sentinel_histories(pid, violations, mismatch, cov):
    c = os.path.join(vlib.scratch(), "sentinel.cfg")
    open(c, "w").write("SPECIFICATION Spec\nCONSTANTS\n ColumnFirst = TRUE\nINVARIANTS C01_RelayConverged C01_ClientConverged C05_NothingDropped\n")
    r = vlib.run_tlc("Sentinel.tla", c, workers=2, timeout=600)
    if r.error:
        raise vlib.ToolError("TLC Sentinel: %s\n%s" % (r.error, r.output[-1200:]))
    cov["states"] += r.distinct; cov["transitions"] += r.generated
    if r.violated:
        mismatch.append("Sentinel.tla violates %s" % r.violated)
    out = os.path.join(vlib.scratch(), "sentinel.json")
    p = vlib.run_vh(["sentinel-probe", out], timeout=600)
    if p.returncode != 0:
        raise vlib.ToolError("vh sentinel-probe failed: %s" % p.stderr[-800:])
    d = json.load(open(out))
    for cse in d["cases"]:
        what = "origin: insert, delete, re-insert, update of one row; relay receives the versions in the order %s; client holds 1..%d and asks the relay for the rest" % (cse["relay_order"], cse["client_has"])
        if cse["relay_table"] != cse["origin_table"]:
            violations.append(("C01: relay that received every version shows %s, the origin %s (%s)" % (cse["relay_table"], cse["origin_table"], what), vlib.write_replay(pid, "sentinel", cse)))
        if cse["client_needs_left"] == 0 and cse["client_table"] != cse["origin_table"]:
            tag = "the server dropped a live change of a version it holds" if pid == "C05" else "client and origin differ although no need is left"
            violations.append(("%s: client shows %s, the origin %s (%s)" % (tag, cse["client_table"], cse["origin_table"], what), vlib.write_replay(pid, "sentinel", cse)))
        elif cse["client_needs_left"] != 0:
            mismatch.append("sentinel history: the client still has needs after the relay answered (%s)" % what)
    cov["sentinel_histories"] = len(d["cases"])


def run(pid, tier):
    t0 = time.time()
    invs, shapes, off = PROFILES[pid]
    # C05: sweep the sync server with every need within its heads at several points of each walk
    repl.PROBE_SWEEPS = 5 if pid == "C05" else 0
    repl.TRACE_INVS = invs if pid == "C05" else None
    violations, mismatch, known = [], [], []
    cov = {"states": 0, "transitions": 0, "traces_validated_against_impl": 0, "samples": [], "model_configs": [], "walks": []}
    # (1) TLC decides the invariants on every behaviour of small instances of Replication.tla
    for c in (MC_QUICK if tier == "quick" else MC_THOROUGH):
        r = vlib.run_tlc("MCReplication.tla", mc_cfg(c, invs), workers=8, timeout=3600, heap="16g", coverage=(tier == "thorough"), budget=900 if tier == "quick" else 2400)
        if r.error:
            raise vlib.ToolError("TLC on Replication.tla failed: %s\n%s" % (r.error, r.output[-1500:]))
        vlib.log("[%s] TLC Replication %s: %d generated, %d distinct, depth %d, violated=%s (%.0fs)%s" % (pid, c, r.generated, r.distinct, r.depth, r.violated, r.wall, " - time budget used up, exploration incomplete" if r.budget_exhausted else ""))
        cov["states"] += r.distinct; cov["transitions"] += r.generated
        cov["model_configs"].append(dict(c, distinct_states=r.distinct, transitions=r.generated, depth=r.depth, invariants=invs, complete=not r.budget_exhausted))
        if r.violated:
            # the model admits a bad state: it is a violation only if the real code follows the counter-example into it
            cfg2 = mc_cfg(c, [r.violated]).replace(".cfg", "_op.cfg")
            open(cfg2, "w").write(open(mc_cfg(c, [r.violated])).read().replace("SPECIFICATION Spec", "SPECIFICATION SpecOp"))
            r2 = vlib.run_tlc("MCReplicationOp.tla", cfg2, workers=8, timeout=3000, heap="16g")
            if not (r2.violated and r2.ce):
                raise vlib.ToolError("could not extract the counter-example for %s" % r.violated)
            ops = [(st["lastOp"][0], st["lastOp"][1]) for (n, ctx, st) in r2.ce]
            rp = vlib.write_replay(pid, "model-" + r.violated, {"invariant": r.violated, "config": c, "nodes": c["N"], "keys": c["K"], "actions": ops})
            v, m = confirm_ce(pid, rp, c["N"], c["K"])
            if v:
                violations.extend((t, rp) for t in v[:2])
            else:
                mismatch.append("Replication.tla violates %s but the real code does not follow the counter-example (%s) %s" % (r.violated, rp, "; ".join(m)[:300]))
    # (1b) committed regression behaviours (counter-examples found earlier, seeded defects): executed on real agents
    regdir = os.path.join(vlib.ROOT, "regressions", "replication")
    nreg = 0
    for fn in sorted(os.listdir(regdir)) if os.path.isdir(regdir) else []:
        if not fn.endswith(".json"):
            continue
        spec = json.load(open(os.path.join(regdir, fn)))
        out = os.path.join(vlib.scratch(), "reg.%s.ndjson" % fn)
        p = vlib.run_vh(["sim-replay", os.path.join(regdir, fn), out], timeout=600)
        if p.returncode != 0:
            mismatch.append("regression %s: harness failed: %s" % (fn, p.stderr[-300:]))
            continue
        ev0 = repl.load_trace(out)
        if ev0[0]["op"].get("skipped"):
            mismatch.append("regression %s: actions %s could not be executed (message not produced by the real code)" % (fn, ev0[0]["op"]["skipped"]))
        r = repl.validate(out, spec["nodes"], spec["keys"])
        v, m = repl.judge(fn, out, r, pid)
        nreg += 1
        if v or m:
            keep = os.path.join(vlib.REPLAYS, "%s-regression-%s.ndjson" % (pid, fn))
            os.makedirs(vlib.REPLAYS, exist_ok=True); shutil.copy(out, keep)
            violations.extend((t, keep) for t in v[:2])
            mismatch.extend(t + " (%s)" % keep for t in m[:2])
    cov["regressions_replayed"] = nreg
    # (1c) delete / re-insert histories of one row (Sentinel.tla): outside the upsert-only model above
    if pid in ("C01", "C05"):
        sentinel_histories(pid, violations, mismatch, cov)
    # (2) recorded walks of the real cluster, validated by TLC against the specification
    nwalks = 12 if tier == "quick" else 120
    seed0 = vlib.seed() * 100000 + off
    total_events = 0
    accepted = 0
    per_shape = max(1, nwalks // len(shapes))
    for (n, k, steps, restart) in shapes:
        seeds = [seed0 + i for i in range(per_shape)]
        seed0 += per_shape
        res = repl.walks(seeds, n, k, steps, restart, par=8)
        for (seed, tr, r) in res:
            total_events += r.get("events", 0)
            if r.get("accepted"):
                accepted += 1
            if tr is None:
                mismatch.append("seed %d: harness failed: %s" % (seed, (r.get("error") or "")[:500]))
                continue
            v, m = repl.judge(seed, tr, r, pid)
            if v or m:
                keep = os.path.join(vlib.REPLAYS, "%s-walk-%d-%d-%d-%d.ndjson" % (pid, seed, n, k, 1 if restart else 0))
                os.makedirs(vlib.REPLAYS, exist_ok=True)
                shutil.copy(tr, keep)
                for t in v:
                    if len(violations) < 6:
                        violations.append((t, keep))
                for t in m:
                    if len(mismatch) < 6:
                        mismatch.append(t + " (%s)" % keep)
            if not cov["samples"] and r.get("accepted"):
                ev = repl.load_trace(tr)
                cov["samples"] = [{"op": e["op"], "node": e.get("n"), "created": [{k2: m2[k2] for k2 in m2 if k2 != "chs"} for m2 in e.get("created", [])]} for e in ev[1:14]]
        cov["walks"].append({"nodes": n, "keys": k, "steps": steps, "restart": restart, "count": len(seeds)})
    cov["traces_validated_against_impl"] = accepted
    cov["events_validated"] = total_events
    cov["evaluations"] = total_events
    cov["distinct_nontrivial"] = accepted
    cov["exhaustive"] = False
    cov["rule"] = ("model: every behaviour of Replication.tla within the listed constants and message bound; "
                   "binding: seeded random walks over N real agents (local transactions incl. failing/no-op ones, network re-cuts, duplicated/reordered "
                   "deliveries in batches, buffered applies, meta clears, sync serving, restarts), each event checked by TLC to be the specification's step and "
                   "all invariants evaluated on every state")
    vlib.write_evidence(pid, tier, LEVEL, cov, time.time() - t0, violations=len(violations), assumptions=[
        "data model of Replication.tla: upserts of unique values on one table; deletes / re-inserts are covered only by Sentinel.tla (one row, fixed origin history, any relay order) and its seven real scenarios",
        "the harness is the network: real QUIC transport, handle_changes batching and parallel_sync are not in this check",
        "process-crash durability (files copied at a commit boundary), not power loss",
        "liveness (drain to quiescence within 12 full-mesh rounds) is observed on the real walks, not proved"])
    return {"violations": violations, "mismatch": mismatch, "known": known}


def replay(pid, path):
    """re-validate a kept walk"""
    ev = repl.load_trace(path)
    init = ev[0]["op"]
    r = repl.validate(path, init["nodes"], init["keys"])
    v, m = repl.judge(init.get("seed"), path, r, pid)
    return {"violations": [(t, path) for t in v], "mismatch": m}
