"""The submission catalogue for C15: abstract definitions (single source) -> TLA+ constant and SQL text."""

def col(c, ty, nn, dflt):
    return {"c": c, "ty": ty, "nn": nn, "dflt": dflt}

ID = col("id", "INTEGER", True, "none")
X = col("x", "TEXT", True, "''")
A0 = {"name": "a", "pk": ["id"], "cols": [ID, X], "idx": [], "fk": False}

def table(name, pk, cols, idx=None, fk=False):
    return {"name": name, "pk": pk, "cols": cols, "idx": idx or [], "fk": fk}

B0 = table("b", ["id"], [ID, col("v", "INTEGER", True, "0")])
C0 = table("c", ["id"], [ID, col("u", "TEXT", False, "none")])

CATALOGUE = [
    {"what": "base table a", "bad": False, "tables": [A0]},
    {"what": "a + nullable column y", "bad": False, "tables": [table("a", ["id"], [ID, X, col("y", "INTEGER", False, "none")])]},
    {"what": "a + NOT NULL column z with default", "bad": False, "tables": [table("a", ["id"], [ID, X, col("z", "INTEGER", True, "0")])]},
    {"what": "a + y + z", "bad": False, "tables": [table("a", ["id"], [ID, X, col("y", "INTEGER", False, "none"), col("z", "INTEGER", True, "0")])]},
    {"what": "a + NOT NULL column w without default (forbidden)", "bad": False, "tables": [table("a", ["id"], [ID, X, col("w", "INTEGER", True, "none")])]},
    {"what": "a without x (dropped column, forbidden)", "bad": False, "tables": [table("a", ["id"], [ID])]},
    {"what": "a with x INTEGER (type change, forbidden)", "bad": False, "tables": [table("a", ["id"], [ID, col("x", "INTEGER", True, "''")])]},
    {"what": "a with another default for x (forbidden)", "bad": False, "tables": [table("a", ["id"], [ID, col("x", "TEXT", True, "'q'")])]},
    {"what": "a with x nullable (forbidden)", "bad": False, "tables": [table("a", ["id"], [ID, col("x", "TEXT", False, "''")])]},
    {"what": "a with primary key (id, x) (forbidden)", "bad": False, "tables": [table("a", ["id", "x"], [ID, X])]},
    {"what": "new table b", "bad": False, "tables": [B0]},
    {"what": "a and b together", "bad": False, "tables": [A0, B0]},
    {"what": "a with an index on x", "bad": False, "tables": [table("a", ["id"], [ID, X], idx=[{"n": "ix_a_x", "cols": ["x"], "uniq": False}])]},
    {"what": "a with a unique index (forbidden)", "bad": False, "tables": [table("a", ["id"], [ID, X], idx=[{"n": "ux_a_x", "cols": ["x"], "uniq": True}])]},
    {"what": "a with a foreign key column (forbidden)", "bad": False, "tables": [table("a", ["id"], [ID, X, col("r", "INTEGER", False, "none")], fk=True)]},
    {"what": "syntax error in the first statement", "bad": True, "tables": [A0], "syntax_at": 0},
    {"what": "valid new table c, then a forbidden edit of a", "bad": False, "tables": [C0, table("a", ["id"], [ID])]},
    {"what": "valid new table c, then a syntax error", "bad": True, "tables": [C0], "syntax_at": 1},
]


def sql_table(t):
    parts = []
    for c in t["cols"]:
        s = "%s %s" % (c["c"], c["ty"])
        if c["nn"]:
            s += " NOT NULL"
        if c["dflt"] != "none":
            s += " DEFAULT %s" % c["dflt"]
        if len(t["pk"]) == 1 and c["c"] == t["pk"][0]:
            s += " PRIMARY KEY"
        if t["fk"] and c["c"] == "r":
            s += " REFERENCES b (id)"
        parts.append(s)
    if len(t["pk"]) > 1:
        parts.append("PRIMARY KEY (%s)" % ", ".join(t["pk"]))
    stmts = ["CREATE TABLE %s (%s)" % (t["name"], ", ".join(parts))]
    for i in t["idx"]:
        stmts.append("CREATE %sINDEX %s ON %s (%s)" % ("UNIQUE " if i["uniq"] else "", i["n"], t["name"], ", ".join(i["cols"])))
    return stmts


def sql_of(entry):
    stmts = []
    for t in entry["tables"]:
        stmts += sql_table(t)
    if entry["bad"]:
        stmts.insert(entry.get("syntax_at", 0), "CREATE TABEL oops (id INTEGER)")
    return stmts


def tla_set(items):
    return "{" + ", ".join(items) + "}"


def tla_table(t):
    cols = tla_set('[c |-> "%s", ty |-> "%s", nn |-> %s, dflt |-> "%s"]' % (c["c"], c["ty"], "TRUE" if c["nn"] else "FALSE", c["dflt"].replace('"', "")) for c in t["cols"])
    idx = tla_set('[n |-> "%s", cols |-> %s, uniq |-> %s]' % (i["n"], tla_set('"%s"' % x for x in i["cols"]), "TRUE" if i["uniq"] else "FALSE") for i in t["idx"])
    return '[name |-> "%s", pk |-> %s, cols |-> %s, idx |-> %s, fk |-> %s]' % (t["name"], tla_set('"%s"' % p for p in t["pk"]), cols, idx, "TRUE" if t["fk"] else "FALSE")


def tla_catalogue(cat):
    return "<<" + ",\n  ".join("[bad |-> %s, tables |-> %s]" % ("TRUE" if e["bad"] else "FALSE", tla_set(tla_table(t) for t in e["tables"])) for e in cat) + ">>"
