"""Shared engine for the Replication specification: model checking configurations, recorded walks of the
real cluster (vh sim-walk) and their validation by TLC against specs/TraceReplication.tla."""
import json, os, re, time, threading
from concurrent.futures import ThreadPoolExecutor
import vlib

INVS = ["C02_PartialRowsMatch", "C01_NoInvention", "C01_NoLoss", "C01_Converged", "C01_MergeOfAll", "C02_HeldIsDurable", "C02_RowsMatch", "NoErr",
        "C03_Atomic", "C03_CoveredIsPending", "C03_BufferedHaveRecord", "C05_Serve", "C07_OwnHead", "C06_AckedPresent"]
FIX_S12 = True


TRACE_INVS = None


def trace_cfg(n, k, invs=None):
    invs = invs or TRACE_INVS
    path = os.path.join(vlib.scratch(), "trace_%d_%d_%d.cfg" % (n, k, len(invs or INVS)))
    # written once and atomically: walks are validated in parallel and share the file
    if not os.path.exists(path):
        tmp = "%s.%d.%d" % (path, os.getpid(), threading.get_ident())
        with open(tmp, "w") as f:
            f.write("SPECIFICATION TraceSpec\nCONSTANTS\n N = %d\n K = %d\n MaxTx = 3\n MaxKeysPerTx = 3\n MaxBatch = 3\n FixS12 = %s\n" % (n, k, "TRUE" if FIX_S12 else "FALSE"))
            f.write("INVARIANTS " + " ".join(invs or INVS) + "\nPOSTCONDITION TraceAccepted\n")
        os.replace(tmp, path)
    return path


PROBE_SWEEPS = 0


def record_walk(seed, n, k, steps, restart):
    out = os.path.join(vlib.scratch(), "walk.%d.%d.%d.%d.ndjson" % (seed, n, k, 1 if restart else 0))
    p = vlib.run_vh(["sim-walk", str(seed), str(n), str(k), str(steps), "1" if restart else "0", out], timeout=600,
                    env_extra={"VH_PROBE_SWEEPS": str(PROBE_SWEEPS)})
    if p.returncode != 0:
        return None, p.stderr[-3000:]
    return out, None


def validate(trace, n, k):
    """returns dict(accepted, events, first_unmatched, violated, error)"""
    cfg = trace_cfg(n, k)
    r = vlib.run_tlc("TraceReplication.tla", cfg, workers=1, timeout=900, dfs=True, heap="3g", env_extra={"TRACE": trace}, dump_trace=False)
    nev = sum(1 for _ in open(trace))
    res = {"events": nev, "accepted": False, "first_unmatched": None, "violated": r.violated, "error": None, "states": r.distinct}
    m = re.search(r'"first unmatched event", (\d+)', r.output)
    if r.violated:
        res["first_unmatched"] = r.distinct + 1
    elif m:
        res["first_unmatched"] = int(m.group(1))
    elif r.ok and r.distinct == nev:
        res["accepted"] = True
    else:
        res["error"] = (r.error or "") + "\n" + r.output[-1500:]
    return res


def walks(seeds, n, k, steps, restart, par=8):
    """record + validate walks; returns list of (seed, trace_path, result)"""
    def one(seed):
        t, err = record_walk(seed, n, k, steps, restart)
        if t is None:
            return (seed, None, {"accepted": False, "error": "harness: " + err, "events": 0, "violated": None, "first_unmatched": None})
        return (seed, t, validate(t, n, k))
    with ThreadPoolExecutor(max_workers=par) as ex:
        return list(ex.map(one, seeds))


def load_trace(path):
    return [json.loads(l) for l in open(path)]


# ---------------------------------------------------------------------------------------------------
# direct oracles: the properties evaluated on the recorded real states themselves (used to classify a
# trace that TLC rejected: real defect vs. model mismatch)
INV_OWNER = {"C02_PartialRowsMatch": "C06", "C01_NoInvention": "C01", "C01_NoLoss": "C01", "C01_Converged": "C01", "C01_MergeOfAll": "C01",
             "C02_HeldIsDurable": "C02", "C02_RowsMatch": "C02", "NoErr": "C06", "C03_Atomic": "C03",
             "C03_CoveredIsPending": "C03", "C03_BufferedHaveRecord": "C03", "C05_Serve": "C05",
             "C07_OwnHead": "C07", "C06_AckedPresent": "C06"}


def elems(rs):
    out = set()
    for a, b in rs:
        out |= set(range(a, b + 1))
    return out


def oracles(events, upto):
    """evaluate the direct oracles on events[1..upto] (inclusive); returns list of (property, text)"""
    fails = []
    written = set()       # (site, dbv, seq, key, cv, val)
    values = {}           # key -> set of written values
    ok_tx = {}            # node -> number of acknowledged transactions
    last_post = {}        # node -> last projected state
    restarted = set()
    net = {}              # message id -> abstract message
    recv = {}             # (node, actor, version) -> set of received seqs
    lasts = {}            # (node, actor, version) -> set of last_seq values seen in delivered chunks
    cleared = {}          # (node, actor) -> versions delivered as empty
    partial_seen = set()  # (node, actor, version) that arrived (also) as partial chunks
    for ev in events[1:upto + 1]:
        op = ev["op"]["op"]
        n = ev.get("n", 0)
        post = ev.get("post")
        for m in ev.get("created", []) or []:
            if m.get("id"):
                net[m["id"]] = m
        if op == "deliver" and not ev.get("err"):
            for mid in ev["op"]["batch"]:
                m = net.get(mid)
                if not m:
                    continue
                if m["k"] == "empty":
                    cleared.setdefault((n, m["a"]), set()).update(range(m["lo"], m["hi"] + 1))
                else:
                    if not (m["lo"] == 0 and m["hi"] == m["last"]):
                        partial_seen.add((n, m["a"], m["v"]))
                    recv.setdefault((n, m["a"], m["v"]), set()).update(range(m["lo"], m["hi"] + 1))
                    lasts.setdefault((n, m["a"], m["v"]), set()).add(m["last"])
        if op == "tx":
            if ev["op"]["fail"] == "" and ev.get("ok"):
                ok_tx[n] = ok_tx.get(n, 0) + 1
                if ev["version"] != ok_tx[n]:
                    fails.append(("C07", "acknowledged version %s is not previous+1 (%s) at event %d" % (ev["version"], ok_tx[n], ev["i"])))
                lo_cover = set()
                for m in ev["created"]:
                    for c in m.get("chs", []):
                        written.add((c["site"], c["dbv"], c["seq"], c["key"], c["cv"], c["val"]))
                        values.setdefault(c["key"], set()).add(c["val"])
                        if not (m["lo"] <= c["seq"] <= m["hi"]):
                            fails.append(("C07", "announced change outside its changeset range at event %d" % ev["i"]))
                    lo_cover |= set(range(m["lo"], m["hi"] + 1))
                if ev["created"]:
                    last = ev["created"][0]["last"]
                    if lo_cover != set(range(0, last + 1)) or sum(m["hi"] - m["lo"] + 1 for m in ev["created"]) != last + 1:
                        fails.append(("C07", "announced changesets do not tile 0..=last_seq at event %d" % ev["i"]))
                    if last != len(ev["op"]["keys"]) - 1:
                        fails.append(("C07", "last_seq %d of the announced version differs from the last sequence number the transaction used (%d) at event %d" % (last, len(ev["op"]["keys"]) - 1, ev["i"])))
                    own = [c for c in (post or {}).get("cells", []) if c["site"] == n and c["dbv"] == ev["version"]]
                    ann = {(c["key"], c["seq"]) for m in ev["created"] for c in m["chs"]}
                    if {(c["key"], c["seq"]) for c in own} != ann:
                        fails.append(("C07", "the announced changes %s are not exactly the transaction's changes %s (event %d)" % (sorted(ann), sorted((c["key"], c["seq"]) for c in own), ev["i"])))
                    if {c["key"] for m in ev["created"] for c in m["chs"]} != set(ev["op"]["keys"]):
                        fails.append(("C07", "announced changes differ from the transaction's writes at event %d" % ev["i"]))
                else:
                    fails.append(("C07", "acknowledged transaction was not announced at event %d" % ev["i"]))
            else:
                if ev.get("version", 0) != 0 or ev.get("created"):
                    fails.append(("C07", "failed/no-op request consumed a version or emitted changes at event %d" % ev["i"]))
                if n in last_post and post is not None:
                    a, b = dict(last_post[n]), dict(post)
                    if a != b:
                        fails.append(("C07", "failed/no-op request changed the node state at event %d" % ev["i"]))
        if op == "restart":
            restarted.add(n)
        if post is not None:
            tag = "C06" if n in restarted else None
            if ev.get("err"):
                fails.append((tag or "C01", "operation failed at event %d: %s" % (ev["i"], ev["err"])))
            for c in post["cells"]:
                if (c["site"], c["dbv"], c["seq"], c["key"], c["cv"], c["val"]) not in written:
                    fails.append((tag or "C01", "node %d shows a cell no acknowledged transaction produced at event %d: %s" % (n, ev["i"], json.dumps(c))))
                    break
            for c in post["cells"]:
                if c.get("raw") is not None and c["raw"] != "text:%06d" % c["val"]:
                    fails.append((tag or "C01", "node %d stores %r where the acknowledged transaction wrote %r (event %d)" % (n, c["raw"], "%06d" % c["val"], ev["i"])))
                    break
            for row in post["rows"]:
                (k, v) = row[0], row[1]
                if len(row) > 2 and row[2] != "%06d" % v:
                    fails.append((tag or "C01", "node %d shows %r for key %s, a value no acknowledged transaction produced (event %d)" % (n, row[2], k, ev["i"])))
                    break
                if v not in values.get(k, set()):
                    fails.append((tag or "C01", "node %d shows value %s for key %s that was never written (event %d)" % (n, v, k, ev["i"])))
                    break
            if post["own"]["max"] != ok_tx.get(n, 0) or post["own"]["needed"] or post["own"]["dbv"] != ok_tx.get(n, 0):
                fails.append(("C06" if n in restarted else "C07", "own head/needed of node %d is %s after %d acknowledged transactions (event %d)" % (n, json.dumps(post["own"]), ok_tx.get(n, 0), ev["i"])))
            # a node that claims to hold a version has every change of it that has not lost globally (NoLoss)
            best = {}
            for (site, dbv, seq, key, cv, val) in written:
                if key not in best or (cv, val) > best[key][:2]:
                    best[key] = (cv, val, site, dbv, seq)
            mycells = {c["key"]: (c["cv"], c["val"], c["site"], c["dbv"], c["seq"]) for c in post["cells"]}
            for b in post["book"]:
                unapplied = set()
                pending = {v for (a, v) in post["pendApply"] if a == b["a"]}
                for p in b["partials"]:
                    covered = not (set(range(0, p["last"] + 1)) - elems(p["seqs"]))
                    rows_left = any(r[0] == p["v"] for r in b["seqRows"])
                    if not covered or p["v"] in pending or (rows_left and post.get("auto")):
                        unapplied.add(p["v"])
                claimed = set(range(1, b["max"] + 1)) - elems(b["needed"]) - unapplied
                # advertised as held only what was received completely (or recorded as cleared)
                for v in claimed:
                    got = recv.get((n, b["a"], v), set())
                    whole = any(set(range(0, L + 1)) <= got for L in lasts.get((n, b["a"], v), set()))
                    if not whole and v not in cleared.get((n, b["a"]), set()):
                        fails.append(("C06" if n in restarted else "C02", "node %d advertises version (%d,%d) as held but only received seqs %s of it (event %d)" % (n, b["a"], v, sorted(got), ev["i"])))
                for key, w in best.items():
                    if w[2] == b["a"] and w[3] in claimed and mycells.get(key) != w:
                        if True:
                            chunked = any(L + 1 > len(recv.get((n, b["a"], w[3]), set())) or True for L in lasts.get((n, b["a"], w[3]), set())) and (n, b["a"], w[3]) in partial_seen
                            fails.append(((tag or "C01") + ("+C03" if chunked else ""), "node %d claims to hold version (%d,%d) but lacks its change to key %s, which no acknowledged change dominates (event %d)" % (n, b["a"], w[3], key, ev["i"])))
            # own acknowledged writes present or overwritten by a dominating change
            for b in post["book"]:
                pv = {p["v"] for p in b["partials"]}
                pending = {v for (a, v) in post["pendApply"] if a == b["a"]}
                unapplied = set()
                for p in b["partials"]:
                    covered = not (set(range(0, p["last"] + 1)) - elems(p["seqs"]))
                    if not covered or p["v"] in pending:
                        unapplied.add(p["v"])
                for c in post["cells"]:
                    if c["site"] == b["a"] and c["dbv"] in unapplied:
                        fails.append(("C03", "node %d shows a change of version (%d,%d) that is only partially received / not yet applied (event %d)" % (n, b["a"], c["dbv"], ev["i"])))
                for p in b["partials"]:
                    rows = set()
                    for r in b["seqRows"]:
                        if r[0] == p["v"]:
                            rows |= set(range(r[1], r[2] + 1))
                    if rows and rows != elems(p["seqs"]):
                        fails.append(("C06" if n in restarted else "C02", "node %d lists seqs %s of version (%d,%d) as received but its seq rows cover %s (event %d)" % (n, sorted(elems(p["seqs"])), b["a"], p["v"], sorted(rows), ev["i"])))
                # whatever was received of a version and is still on disk is known to the in-memory bookkeeping
                pvs = {p["v"] for p in b["partials"]}
                for r in b["seqRows"]:
                    held = r[0] <= b["max"] and r[0] not in elems(b["needed"])    # rows of a held version wait for the meta clear (S2r)
                    if r[0] not in pvs and not held:
                        fails.append(("C06" if n in restarted else "C02", "node %d has the seqs %d..=%d of version (%d,%d) on disk but its bookkeeping has no record of that partially received version%s (event %d)"
                                      % (n, r[1], r[2], b["a"], r[0], ": it was forgotten by the restart, nothing re-triggers its apply and it is not advertised" if n in restarted else "", ev["i"])))
                        break
                if sorted(map(tuple, b["gapRows"])) != sorted(map(tuple, b["needed"])):
                    fails.append(("C02", "gap rows differ from the in-memory needed set at node %d (event %d)" % (n, ev["i"])))
            last_post[n] = post
        if op in ("serve", "probe"):
            srv = ev["post"]
            bk = {b["a"]: b for b in srv["book"]}
            a = ev["op"]["need"]["a"]
            for m in ev["created"]:
                if m["k"] == "empty" and a in bk:
                    b = bk[a]
                    for v in range(m["lo"], m["hi"] + 1):
                        # a complete partial record that was applied (no seq rows left, no apply pending) is a held version
                        pend = {pv for (pa, pv) in srv["pendApply"] if pa == a}
                        part_open = any(p["v"] == v and ((set(range(0, p["last"] + 1)) - elems(p["seqs"])) or v in pend or any(r[0] == v for r in b["seqRows"]))
                                        for p in b["partials"])
                        if v in elems(b["needed"]) or v > b["max"] or part_open:
                            fails.append(("C05", "server %d declared version (%d,%d) empty although it needs it / holds it partially / it is beyond its head (event %d)" % (n, a, v, ev["i"])))
                        if any(c["site"] == a and c["dbv"] == v for c in srv["cells"]):
                            fails.append(("C05", "server %d declared version (%d,%d) empty although it has live changes (event %d)" % (n, a, v, ev["i"])))
                if m["k"] == "full":
                    if a in bk and not any(c["site"] == a and c["dbv"] == m["v"] for c in srv["cells"]):
                        rowseqs = set()
                        for r in bk[a]["seqRows"]:
                            if r[0] == m["v"]:
                                rowseqs |= set(range(r[1], r[2] + 1))
                        if not set(range(m["lo"], m["hi"] + 1)) <= rowseqs:
                            fails.append(("C05", "server %d answered the partially buffered version (%d,%d) with range %d..=%d, more than the buffered ranges %s (event %d)" % (n, a, m["v"], m["lo"], m["hi"], sorted(rowseqs), ev["i"])))
                    for c in m["chs"]:
                        if not (m["lo"] <= c["seq"] <= m["hi"]):
                            fails.append(("C05", "server sent a change outside its changeset's range (event %d)" % ev["i"]))
                        if (c["site"], c["dbv"], c["seq"], c["key"], c["cv"], c["val"]) not in written:
                            fails.append(("C05", "server sent a change nobody wrote (event %d)" % ev["i"]))
        if op in ("serve", "probe"):
            # C08 at the serving layer: the changesets answering a need for a version the server holds completely, with
            # live changes, tile the requested sequence ranges (a need for whole versions: 0..=last) - no gap, no overlap,
            # even where a requested range holds no live change any more
            srv = ev["post"]
            bk = {b["a"]: b for b in srv["book"]}
            need = ev["op"]["need"]
            a = need["a"]
            own = (a == n)
            b = bk.get(a)
            if own or b is not None:
                head = srv["own"]["max"] if own else b["max"]
                needed = set() if own else elems(b["needed"])
                pend2 = {pv for (pa, pv) in srv["pendApply"] if pa == a}
                partial_vs = set() if own else {p["v"] for p in b["partials"]
                                                if (set(range(0, p["last"] + 1)) - elems(p["seqs"])) or p["v"] in pend2 or any(r[0] == p["v"] for r in b["seqRows"])}
                wanted = {}   # version -> requested seqs (None == the whole version)
                if need["k"] == "full":
                    for v in range(need["lo"], need["hi"] + 1):
                        wanted[v] = None
                else:
                    wanted[need["v"]] = elems(need["seqs"])
                for v, req in wanted.items():
                    live = sorted(c["seq"] for c in srv["cells"] if c["site"] == a and c["dbv"] == v)
                    if v > head or v in needed or v in partial_vs or not live:
                        continue
                    ms = [m for m in ev["created"] if m["k"] == "full" and m["v"] == v]
                    if not ms and req is not None and not any(x <= max(live) for x in req):
                        continue    # a range entirely beyond the last live change may lie beyond last_seq: nothing is owed
                    if not ms:
                        fails.append(("C05+C08", "server %d holds version (%d,%d) with live changes but produced no changeset for the need %s (event %d)" % (n, a, v, json.dumps(need), ev["i"])))
                        continue
                    last = ms[0]["last"]
                    want = set(range(0, last + 1)) if req is None else {x for x in req if x <= last}
                    got, overlap = set(), False
                    for m in ms:
                        r = set(range(m["lo"], m["hi"] + 1))
                        if r & got:
                            overlap = True
                        got |= r
                    got_in = {x for x in got if x <= last}
                    if overlap:
                        fails.append(("C05+C08", "the changesets server %d produced for version (%d,%d) overlap (event %d)" % (n, a, v, ev["i"])))
                    if got_in != want:
                        fails.append(("C05+C08", "the changesets server %d produced for version (%d,%d) cover seqs %s, the need asks for %s (event %d)" % (n, a, v, sorted(got_in), sorted(want), ev["i"])))
                    sent = sorted(c["seq"] for m in ms for c in m["chs"])
                    if sent != [x for x in live if x in want]:
                        fails.append(("C05+C08", "server %d sent the changes at seqs %s of version (%d,%d), its live changes in the requested range are at %s (event %d)" % (n, sent, a, v, [x for x in live if x in want], ev["i"])))
        if op == "final":
            finals = ev["finals"]
            if not ev.get("quiescent"):
                fails.append(("C03", "sync needs remain after %d full-mesh rounds (a partial version is never applied or discarded / a need is never served)" % ev["rounds"]))
            else:
                base = [(c["key"], c["cv"], c["val"], c["cl"]) for c in finals[0]["cells"]]
                for i, f in enumerate(finals[1:]):
                    if [(c["key"], c["cv"], c["val"], c["cl"]) for c in f["cells"]] != base or [r[:2] for r in f["rows"]] != [r[:2] for r in finals[0]["rows"]] or f["rows"] != finals[0]["rows"]:
                        fails.append(("C01", "nodes 1 and %d differ after quiescence" % (i + 2)))
                # equal to the merge of all acknowledged transactions
                best = {}
                for (site, dbv, seq, key, cv, val) in written:
                    cur = best.get(key)
                    if cur is None or (cv, val) > cur:
                        best[key] = (cv, val)
                got = {c["key"]: (c["cv"], c["val"]) for c in finals[0]["cells"]}
                if got != best:
                    fails.append(("C01", "converged state differs from the merge of all acknowledged transactions: %s vs %s" % (got, best)))
    return fails


def judge(seed, trace, res, focus):
    """-> (violations [(text)], mismatches [text]) for property `focus` (or any if focus is None)"""
    viol, mism = [], []
    if res.get("error") and not res.get("events"):
        mism.append("seed %s: %s" % (seed, res["error"][:400]))
        return viol, mism
    events = load_trace(trace)
    if res["accepted"]:
        # accepted by TLC; the drain result is judged directly (liveness is not an invariant)
        fl = oracles(events, len(events) - 1)
    else:
        upto = (res["first_unmatched"] or len(events)) - 1
        fl = oracles(events, min(upto, len(events) - 1))
        if res["violated"]:
            fl.append((INV_OWNER.get(res["violated"], "C01"), "invariant %s of Replication.tla is false in the state after event %d of the recorded walk" % (res["violated"], upto - 1)))
    mine = [t for (p, t) in fl if focus is None or focus in p.split("+")]
    others = [(p, t) for (p, t) in fl if focus is not None and focus not in p.split("+")]
    if mine:
        viol.extend(mine[:3])
    elif others:
        mism.append("seed %s: walk shows a violation of %s (%s); this check cannot conclude" % (seed, others[0][0], others[0][1][:200]))
    elif not res["accepted"]:
        mism.append("seed %s: TLC rejects the recorded walk at event %s (%s) but no property formula fails on the real states" % (seed, res["first_unmatched"], (res.get("error") or "")[:300]))
    return viol, mism
