"""C12 — attaching or resuming a subscription never skips or repeats a change silently.

Decided by: specs/SubCatchUp.tla (TLC exhaustive: every interleaving of the matcher's emit/commit with one
attaching or resuming subscriber, receiver and queue capacities 1-3 so that the overflow paths occur, every
resume point).  Binding: (D) the shortest TLC counter-example of the as-found protocol is forced on the real code
with the pause points in catch_up_sub (queue task held, snapshot delayed until a change was emitted and committed);
(c) subscribers attach / resume through the real HTTP API and client library while a writer commits, and every
stream is judged by the property's formula (ids contiguous after the snapshot marker, or the stream ends)."""
import json, os, time
import vlib

PID = "C12"
LEVEL = "model_checking"
FIX_S6 = True


def judge_stream(out, resume_from=None):
    """the property on what one client received"""
    last = resume_from
    for i, e in enumerate(out):
        k = e["k"]
        if k == "eoq":
            last = e["id"]
        elif k == "change":
            if last is not None and e["id"] != last + 1:
                return "change id %d delivered after %d (not contiguous)" % (e["id"], last)
            last = e["id"]
        elif k == "missed":
            return "client library reports MissedChange: expected %d, got %d (the server delivered a non-contiguous change id)" % (e["expected"], e["got"])
        elif k in ("error", "closed", "client_error", "attach_error"):
            if i != len(out) - 1:
                return "events delivered after the stream reported %s" % k
    return None


def run(tier):
    t0 = time.time()
    violations, mismatch = [], []
    cov = {"states": 0, "transitions": 0, "traces_validated_against_impl": 0, "samples": []}
    cfgs = [(3, 2, 2, 0), (3, 1, 1, 0), (3, 2, 2, 1), (3, 1, 2, 2)] if tier == "quick" else [(4, 2, 3, 0), (4, 1, 1, 0), (4, 3, 2, 0), (4, 2, 2, 1), (4, 2, 2, 2), (4, 1, 3, 3), (5, 2, 2, 0)]
    for (maxid, cap, qcap, frm) in cfgs:
        c = os.path.join(vlib.scratch(), "sc_%d_%d_%d_%d.cfg" % (maxid, cap, qcap, frm))
        open(c, "w").write("SPECIFICATION Spec\nCONSTANTS\n MaxId = %d\n Cap = %d\n QCap = %d\n From = %d\n FixS6 = %s\nINVARIANTS C12_Contiguous C12_StopsAfterError\n" % (maxid, cap, qcap, frm, "TRUE" if FIX_S6 else "FALSE"))
        r = vlib.run_tlc("SubCatchUp.tla", c, workers=6, timeout=1800)
        if r.error:
            raise vlib.ToolError("TLC SubCatchUp: %s\n%s" % (r.error, r.output[-1200:]))
        cov["states"] += r.distinct; cov["transitions"] += r.generated
        if r.violated:
            rp = vlib.write_replay(PID, "model-" + r.violated, {"invariant": r.violated, "config": [maxid, cap, qcap, frm], "actions": [n for (n, c2, s) in (r.ce or [])]})
            mismatch.append("SubCatchUp.tla violates %s (%s); the forced replay below decides for the code" % (r.violated, rp))
    vlib.log("[C12] TLC SubCatchUp: %d configurations, %d distinct states" % (len(cfgs), cov["states"]))
    # forced schedule (the counter-example of the as-found protocol) + free-running attaches on the real code
    runs = [("1", 12 if tier == "quick" else 40), ("2", 4 if tier == "quick" else 15), ("0", 10 if tier == "quick" else 60)]
    n_streams = 0
    for (forced, attempts) in runs:
        out = os.path.join(vlib.scratch(), "subrace.%s.ndjson" % forced)
        p = vlib.run_vh(["sub-race", str(vlib.seed()), str(attempts), forced, out], timeout=1500, env_extra={"VH_THREADS": "4"})
        if p.returncode != 0:
            raise vlib.ToolError("vh sub-race failed: %s" % p.stderr[-1500:])
        for line in open(out):
            d = json.loads(line)
            n_streams += 1
            why = judge_stream(d["out"])
            if not why and d["mode"] == "inflight" and d.get("parked"):
                ids = [e["id"] for e in d["out"] if e["k"] == "change"]
                if len(ids) < 2 and not any(e["k"] in ("error", "closed", "client_error", "attach_error", "missed") for e in d["out"]):
                    why = "the change in flight at attach time and the one after it were not both delivered (got %s) although the stream neither failed nor closed" % json.dumps(d["out"])
            if why:
                rp = vlib.write_replay(PID, "stream", d)
                if len(violations) < 5:
                    violations.append(("%s attach: %s" % (d["mode"], why), rp))
            if not any(e["k"] == "eoq" for e in d["out"]) and not any(e["k"] in ("error", "attach_error", "client_error", "closed") for e in d["out"]):
                mismatch.append("a subscriber received neither a snapshot marker nor an error: %s" % json.dumps(d)[:200])
            if len(cov["samples"]) < 3:
                cov["samples"].append(d)
    cov["traces_validated_against_impl"] = n_streams
    cov["evaluations"] = n_streams
    cov["distinct_nontrivial"] = n_streams
    cov["exhaustive"] = False
    cov["rule"] = "model: all interleavings for <= 4-5 changes, receiver capacity 1-3, queue capacity 1-3, attach from scratch or resume at 1..3; binding: forced replays of the counter-example schedule and free-running attaches over HTTP, every stream judged"
    vlib.write_evidence(PID, tier, LEVEL, cov, time.time() - t0, violations=len(violations), assumptions=[
        "real buffer sizes (10240) are not reached by the real runs; overflow paths are explored in the model only",
        "the forced schedule depends on a select! coin: each attempt reproduces the as-found duplicate with probability < 1"])
    return {"violations": violations, "mismatch": mismatch[:3]}


def replay(path):
    d = json.load(open(path))
    why = judge_stream(d["out"])
    return {"violations": [(why, path)] if why else []}
