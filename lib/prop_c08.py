"""C08 — changeset chunks tile the sequence range exactly, whatever the size limit.

Serving layer: recorded walks of real agents (Replication engine) in which every server is swept with every need within
its heads; the changesets it produces for a completely held version must tile the requested ranges (lib/repl.py oracle
tagged C08), including ranges whose changes were all overwritten.

Decided by: specs/Chunker.tla + specs/ChunkRange.tla (TLC exhaustive over all inputs / limit schedules
within the bounds) and a replay of every enumerated behaviour on the real ChunkedChanges iterator and
the real chunk_range; the tiling predicate is also evaluated directly on the real output."""
import json, os, time, random, shutil
from concurrent.futures import ThreadPoolExecutor
import vlib

PID = "C08"
LEVEL = "model_checking"


def tiles(out, start, last, input_seqs):
    """the property itself, on a list of {chs, lo, hi}"""
    if not out:
        return "no chunk produced"
    if any("error" in c for c in out):
        return "error chunk"
    if out[0]["lo"] != start:
        return "first range does not start at the requested first sequence"
    if out[-1]["hi"] != last:
        return "last range does not end at the requested last sequence"
    for i, c in enumerate(out):
        if c["lo"] > c["hi"]:
            return "empty/inverted range"
        if i + 1 < len(out) and out[i + 1]["lo"] != c["hi"] + 1:
            return "ranges not contiguous / overlapping"
        for s in c["chs"]:
            if not (c["lo"] <= s <= c["hi"]):
                return "change outside its changeset's range"
    flat = [s for c in out for s in c["chs"]]
    if flat != input_seqs:
        return "changes lost, duplicated or reordered"
    return None


def write_cfg(name, body):
    path = os.path.join(vlib.scratch(), name)
    with open(path, "w") as f:
        f.write(body)
    return path


def run_cases(sub, cases, nproc=12):
    nproc = max(1, min(nproc, len(cases) // 200 + 1))
    files = []
    for i in range(nproc):
        fn = os.path.join(vlib.scratch(), "%s.%d.ndjson" % (sub, i))
        with open(fn, "w") as f:
            for c in cases[i::nproc]:
                f.write(json.dumps(c) + "\n")
        files.append(fn)
    res = {}
    with ThreadPoolExecutor(max_workers=nproc) as ex:
        for p in ex.map(lambda fn: vlib.run_vh([sub, fn], timeout=1800), files):
            if p.returncode != 0:
                raise vlib.ToolError("vh %s failed: %s" % (sub, p.stderr[-2000:]))
            for line in p.stdout.splitlines():
                d = json.loads(line)
                res[d["id"]] = d
    return res


def run(tier):
    t0 = time.time()
    violations, mismatch = [], []
    if tier == "quick":
        consts = dict(MaxStart=2, MaxLast=4, Sizes="{1,2}", Limits="{0,1,2,3,100}", MaxLimitChanges=2)
        cr = dict(MaxHi=12, Ks="{1,2,3,4,10}")
    else:
        consts = dict(MaxStart=2, MaxLast=5, Sizes="{1,2}", Limits="{0,1,2,3,4,100}", MaxLimitChanges=2)
        cr = dict(MaxHi=24, Ks="{1,2,3,4,5,7,10,11}")
    cfg = write_cfg("Chunker.cfg", "SPECIFICATION Spec\nCONSTANTS\n" + "".join(" %s = %s\n" % kv for kv in consts.items())
                    + "INVARIANTS TilesPrefix TilesWhenDone Export\nPROPERTIES Progress\n")
    r = vlib.run_tlc("MCChunker.tla", cfg, workers=8, timeout=1500, keep_lines=lambda l: l.startswith("REPLAY ") or l.startswith('"REPLAY '),
                     coverage=(tier == "thorough"))
    if r.error:
        raise vlib.ToolError("TLC Chunker: %s\n%s" % (r.error, r.output[-1500:]))
    vlib.log("[C08] TLC Chunker: %d distinct states, violated=%s, %d completed behaviours (%.0fs)" % (r.distinct, r.violated, len(r.lines), r.wall))
    if r.violated:
        rp = vlib.write_replay(PID, "model-" + r.violated, {"invariant": r.violated, "trace": r.trace[:200]})
        # the Chunker module is a line-by-line transcription; the replay below decides whether the code agrees
        mismatch.append("Chunker.tla violates %s (%s)" % (r.violated, rp))
    cases = []
    for i, line in enumerate(r.lines):
        if line.startswith('"'):
            line = json.loads(line)
        d = json.loads(line[7:])
        d["id"] = i
        cases.append(d)
    res = run_cases("replay-chunker", cases)
    nontrivial = 0
    for c in cases:
        got = res.get(c["id"])
        if len(c["out"]) > 1:
            nontrivial += 1
        if got is None:
            raise vlib.ToolError("no result for case %s" % c["id"])
        input_seqs = [x["seq"] for x in c["input"]]
        if got.get("panic"):
            why = "panic"
        else:
            why = tiles(got["out"], c["start"], c["last"], input_seqs)
        if why:
            if len(violations) < 5:
                rp = vlib.write_replay(PID, "chunker", {"case": c, "real": got, "why": why})
                violations.append(("ChunkedChanges: " + why, rp))
        elif got["out"] != c["out"]:
            if len(mismatch) < 5:
                rp = vlib.write_replay(PID, "mismatch", {"case": c, "real": got})
                mismatch.append("real ChunkedChanges output differs from Chunker.tla but tiles correctly (%s)" % rp)
    # chunk_range
    cfg2 = write_cfg("ChunkRange.cfg", "SPECIFICATION Spec\nCONSTANTS\n MaxHi = %s\n Ks = %s\nINVARIANTS UnionExact NonEmpty WithinChunk Export\n" % (cr["MaxHi"], cr["Ks"]))
    r2 = vlib.run_tlc("ChunkRange.tla", cfg2, workers=4, timeout=600, keep_lines=lambda l: l.startswith("REPLAY ") or l.startswith('"REPLAY '))
    if r2.error:
        raise vlib.ToolError("TLC ChunkRange: %s\n%s" % (r2.error, r2.output[-1500:]))
    if r2.violated:
        mismatch.append("ChunkRange.tla violates %s" % r2.violated)
    cases2 = []
    for i, line in enumerate(r2.lines):
        if line.startswith('"'):
            line = json.loads(line)
        d = json.loads(line[7:]); d["id"] = i
        cases2.append(d)
    res2 = run_cases("replay-chunkrange", cases2, nproc=2)
    for c in cases2:
        got = res2[c["id"]]
        why = None
        if got.get("panic"):
            why = "panic"
        else:
            cover = set()
            for (a, b) in got["blocks"]:
                if a > b:
                    why = "empty sub-range"
                cover |= set(range(a, b + 1))
            if cover != set(range(c["lo"], c["hi"] + 1)):
                why = "union of sub-ranges differs from the requested range"
        if why:
            if len(violations) < 8:
                rp = vlib.write_replay(PID, "chunkrange", {"case": c, "real": got, "why": why})
                violations.append(("chunk_range: " + why, rp))
        elif sorted(got["blocks"]) != sorted([list(b) for b in c["blocks"]]):
            if len(mismatch) < 5:
                mismatch.append("real chunk_range differs from ChunkRange.tla on %s" % json.dumps(c))
    # serving layer: what send_change_chunks / handle_need make of the chunks
    import repl
    repl.PROBE_SWEEPS = 3
    repl.TRACE_INVS = None
    nwalks = 6 if tier == "quick" else 30
    seeds = [vlib.seed() * 100000 + 8000 + i for i in range(nwalks)]
    served = 0
    for (seed, tr, wr) in repl.walks(seeds, 3, 3, 60, False, par=8):
        if tr is None:
            mismatch.append("seed %d: harness failed: %s" % (seed, (wr.get("error") or "")[:300])); continue
        served += sum(1 for e in repl.load_trace(tr) if e["op"]["op"] in ("serve", "probe"))
        v, m = repl.judge(seed, tr, wr, PID)
        if v or m:
            keep = os.path.join(vlib.REPLAYS, "%s-walk-%d.ndjson" % (PID, seed))
            os.makedirs(vlib.REPLAYS, exist_ok=True); shutil.copy(tr, keep)
            for t in v[:2]:
                if len(violations) < 8:
                    violations.append((t, keep))
            for t in m[:1]:
                if len(mismatch) < 5:
                    mismatch.append(t + " (%s)" % keep)
    vlib.log("[C08] %d walks, %d served needs judged for tiling" % (nwalks, served))
    rnd = random.Random(vlib.seed())
    cov = {"served_needs_judged": served, "states": r.distinct + r2.distinct, "transitions": r.generated + r2.generated,
           "traces_validated_against_impl": len(cases) + len(cases2),
           "samples": rnd.sample(cases, min(3, len(cases))) + rnd.sample(cases2, min(2, len(cases2))),
           "exhaustive": True, "evaluations": len(cases) + len(cases2), "distinct_nontrivial": nontrivial,
           "rule": "every (input list, start, last, limit schedule) within the bounds, run to completion; non-trivial = more than one chunk produced",
           "bounds": {"chunker": consts, "chunk_range": cr}}
    vlib.write_evidence(PID, tier, LEVEL, cov, time.time() - t0, violations=len(violations), assumptions=[
        "inputs have strictly increasing sequence numbers inside [start,last] (the property's precondition)",
        "sizes are multiples of a %d-byte unit (changes padded so estimated_byte_size() is exact)" % 200,
        "chunk_size = 0 and versions near u64::MAX are excluded (DESIGN.md §6/C08)"])
    return {"violations": violations, "mismatch": mismatch}


def replay(path):
    d = json.load(open(path))
    if "case" in d and "input" in d["case"]:
        c = d["case"]; c["id"] = 0
        got = run_cases("replay-chunker", [c], nproc=1)[0]
        why = "panic" if got.get("panic") else tiles(got["out"], c["start"], c["last"], [x["seq"] for x in c["input"]])
        return {"violations": [(why, path)] if why else []}
    raise vlib.ToolError("unsupported replay file")
