---------------------------- MODULE Bookkeeping ----------------------------
(* Per-origin-actor version bookkeeping of one node, at range level.                               *)
(*                                                                                                   *)
(* Code anchors (crates/klukai-types/src/agent.rs, crates/klukai-agent/src/agent/util.rs,           *)
(* crates/klukai-types/src/sync.rs):                                                                 *)
(*   VersionsSnapshot::{compute_gaps_change, insert_db}, BookedVersions::{contains_version,         *)
(*   contains, contains_all, insert_partial, snapshot, commit_snapshot, from_conn},                 *)
(*   process_multiple_changes (per-actor part), process_incomplete_version (seq-range merge SQL),   *)
(*   process_fully_buffered_changes, clear_buffered_meta_loop (one round), generate_sync.           *)
(*                                                                                                   *)
(* One action == one SQLite commit plus the in-memory update done under the same Booked write lock. *)
EXTENDS Naturals, FiniteSets, Sequences, TLC, Ranges

CONSTANTS MaxV,        \* versions are 1..MaxV
          MaxS,        \* sequences are 0..MaxS
          MaxBatch,    \* changesets per process_multiple_changes call
          Lasts,       \* admissible last_seq values of a version (honest origin: one value per version)
          FullStart,   \* PartialVersion::full_range() starts at this seq (code as written: 1; fixed: 0)
          KF_S2        \* TRUE: exempt the region of known finding S2 (stale partial records of held versions)

VARIABLES max,        \* in-memory head (0 == None)
          needed,     \* in-memory needed versions (RangeInclusiveSet == set of versions)
          partials,   \* in-memory partials: set of [v, seqs, last]
          gapRows,    \* __corro_bookkeeping_gaps rows of this actor: set of <<start, end>>
          seqRows,    \* __corro_seq_bookkeeping rows: set of [v, s, e, last]
          bufRows,    \* __corro_buffered_changes rows: set of <<v, seq>>
          dbv,        \* crsql_db_versions entry for this actor (0 == absent)
          merged,     \* ghost: versions whose changes were merged into the tables, or that were recorded
                      \*        empty ("cleared"), by a committed transaction
          pendApply,  \* apply triggers sent on tx_apply, not yet consumed
          pendClear,  \* clear triggers sent on tx_clear_buf, not yet consumed
          err         \* an SQL statement of insert_db / the seq merge failed or an assert_always fired

vars == <<max, needed, partials, gapRows, seqRows, bufRows, dbv, merged, pendApply, pendClear, err>>

V == 1..MaxV
S == 0..MaxS

-----------------------------------------------------------------------------
(* Changesets offered to the node for this actor *)
FullChunks == [k : {"full"}, v : V, lo : S, hi : S, last : Lasts, has : BOOLEAN]
EmptyChunks == [k : {"empty"}, lo : V, hi : V]
(* an honest origin gives a version ONE last_seq: with several admissible values, version v has the ((v-1) mod n)+1-th *)
LastFor(v) == LET n == Cardinality(Lasts) idx == ((v - 1) % n) + 1
              IN CHOOSE x \in Lasts : Cardinality({y \in Lasts : y < x}) = idx - 1
WellFormed(c) == IF c.k = "empty" THEN c.lo <= c.hi
                 ELSE /\ c.lo <= c.hi /\ c.hi <= c.last /\ c.last = LastFor(c.v)
                      \* a partial chunk without rows is only produced next to chunks with rows; a
                      \* complete changeset without changes is the "cleared" encoding
                      /\ (c.has \/ (c.lo = 0 /\ c.hi = c.last))
Chunks == {c \in FullChunks \cup EmptyChunks : WellFormed(c)}

IsComplete(c) == c.k = "empty" \/ (c.lo = 0 /\ c.hi = c.last)
IsEmptyCs(c) == c.k = "empty" \/ ~c.has
CVersions(c) == IF c.k = "empty" THEN c.lo..c.hi ELSE {c.v}
CSeqs(c) == IF c.k = "empty" THEN {} ELSE c.lo..c.hi
HasSeqs(c) == c.k = "full"

-----------------------------------------------------------------------------
(* BookedVersions queries *)
HasPartial(P, v) == \E p \in P : p.v = v
PartialOf(P, v) == CHOOSE p \in P : p.v = v
ContainsVersion(v) == v \notin needed /\ max >= v
(* PartialVersion::is_complete as coded (full_range starts at FullStart) *)
PvComplete(p) == Gaps(p.seqs, FullStart, p.last) = {}
(* BookedVersions::contains: with seqs, a partial must hold them all; without (whole version), a     *)
(* partially received version only counts once all of its sequences were received (fix S2)           *)
Contains(v, hasSeqs, Q) ==
    /\ ContainsVersion(v)
    /\ (HasPartial(partials, v) =>
            IF hasSeqs THEN Q \subseteq PartialOf(partials, v).seqs ELSE PvComplete(PartialOf(partials, v)))
KnownAtStart(c) == \A v \in CVersions(c) : Contains(v, HasSeqs(c), CSeqs(c))

(* the "gaps in 0..=last_seq" test used for the apply trigger and in process_fully_buffered_changes *)
PvCovered(p) == Gaps(p.seqs, 0, p.last) = {}

-----------------------------------------------------------------------------
(* compute_gaps_change + insert_db on a snapshot [max, needed, partials] and the gap rows *)
GapsChange(mx, nd, VS) ==
    LET per(r) ==
          LET lo == r[1]
              hi == r[2]
              ov == Overlapping(nd, lo, hi) \cup (IF lo >= 1 THEN RunOf(nd, lo - 1) ELSE {}) \cup RunOf(nd, hi + 1)
              gs == mx + 1
              gapIns == IF gs < lo THEN gs..lo ELSE {}
              ov2 == IF gs < lo THEN Overlapping(nd, gs, lo) ELSE {}
          IN [ins |-> Elems(ov \cup ov2) \cup gapIns, rem |-> ov \cup ov2]
        all == {per(r) : r \in Runs(VS)}
    IN [ins |-> (UNION {x.ins : x \in all}) \ VS,
        rem |-> UNION {x.rem : x \in all},
        max |-> Max2(mx, MaxOf(VS))]

(* result of insert_db: new snapshot + rows + error flag *)
InsertDb(mx, nd, P, rows, VS) ==
    LET ch == GapsChange(mx, nd, VS)
        rows1 == rows \ ch.rem
        newRuns == Runs(ch.ins)
        delFail == \E r \in ch.rem : r \notin rows                    \* "ineffective deletion of gaps in-db"
        insFail == \E r \in newRuns : \E q \in rows1 : q[1] = r[1]     \* PRIMARY KEY (actor_id, start)
    IN [max |-> ch.max,
        needed |-> (nd \ Elems(ch.rem)) \cup ch.ins,
        partials |-> {p \in P : p.v \notin Elems(ch.rem)},
        rows |-> rows1 \cup newRuns,
        err |-> delFail \/ insFail]

-----------------------------------------------------------------------------
(* the DELETE ... RETURNING of process_incomplete_version, condition by condition *)
SqlMatch(r, qs, qe) ==
    \/ (r.s >= qs /\ r.s <= qe)
    \/ (r.s <= qs /\ r.e >= qe)
    \/ (r.s <= qe /\ r.e >= qe)
    \/ (r.e >= qs /\ r.e <= qe)
    \/ (r.s = qe + 1 /\ r.e # 0)
    \/ (r.e + 1 = qs)

NoneSeen == [v \in V |-> [kind |-> "none", seqs |-> {}]]
SeenInCall(seen, c) ==
    \A v \in CVersions(c) :
        IF HasSeqs(c)
        THEN seen[v].kind = "known" \/ (seen[v].kind = "partial" /\ CSeqs(c) \subseteq seen[v].seqs)
        ELSE seen[v].kind # "none"

(* one iteration of the per-actor loop of process_multiple_changes inside the open transaction *)
StepChange(st, c) ==
    IF KnownAtStart(c) \/ SeenInCall(st.seen, c) THEN st
    ELSE IF IsComplete(c) /\ IsEmptyCs(c) THEN
        LET hi == IF c.k = "empty" THEN c.hi ELSE c.v
            lo == IF c.k = "empty" THEN c.lo ELSE c.v
            hadMeta == (\E b \in st.bufRows : b[1] \in lo..hi) \/ (\E r \in st.seqRows : r.v \in lo..hi)
        IN [st EXCEPT !.dbv = IF hi > max \/ hadMeta THEN Max2(@, hi) ELSE @,   \* process_empty_version (crsql_set_db_version keeps the max)
                      !.merged = @ \cup (lo..hi),
                      \* check_buffered_meta_to_clear over the range: the whole range is scheduled (fix S2)
                      !.pendClear = IF hadMeta THEN @ \cup (lo..hi) ELSE @,
                      !.seen = [v \in V |-> IF v \in lo..hi THEN [kind |-> "known", seqs |-> {}] ELSE @[v]],
                      !.processed = Append(@, [lo |-> lo, hi |-> hi, p |-> FALSE, seqs |-> {}, last |-> 0])]
    ELSE IF IsComplete(c) THEN                                       \* process_complete_version
        [st EXCEPT !.merged = @ \cup {c.v},
                   !.dbv = Max2(@, c.v),
                   !.pendClear = IF (\E b \in st.bufRows : b[1] = c.v) \/ (\E r \in st.seqRows : r.v = c.v)
                                 THEN @ \cup {c.v} ELSE @,          \* check_buffered_meta_to_clear
                   !.seen = [@ EXCEPT ![c.v] = [kind |-> "known", seqs |-> {}]],
                   !.processed = Append(@, [lo |-> c.v, hi |-> c.v, p |-> FALSE, seqs |-> {}, last |-> 0])]
    ELSE                                                             \* process_incomplete_version
        LET del == {r \in st.seqRows : r.v = c.v /\ SqlMatch(r, c.lo, c.hi)}
            U == UNION {r.s..r.e : r \in del} \cup (c.lo..c.hi)
        IN IF ~Contiguous(U) THEN [st EXCEPT !.err = TRUE]
           ELSE [st EXCEPT !.seqRows = (@ \ del) \cup {[v |-> c.v, s |-> MinOf(U), e |-> MaxOf(U), last |-> c.last]},
                           !.bufRows = @ \cup {<<c.v, q>> : q \in c.lo..c.hi},
                           !.seen = [@ EXCEPT ![c.v] = [kind |-> "partial", seqs |-> U]],
                           !.processed = Append(@, [lo |-> c.v, hi |-> c.v, p |-> TRUE, seqs |-> U, last |-> c.last])]

RECURSIVE FoldBatch(_, _, _)
FoldBatch(st, b, i) == IF i > Len(b) THEN st ELSE FoldBatch(StepChange(st, b[i]), b, i + 1)

(* BookedVersions::insert_partial applied to the processed partials, in order *)
RECURSIVE InsertPartials(_, _, _, _)
InsertPartials(mem, pr, i, trig) ==
    IF i > Len(pr) THEN [mem |-> mem, trig |-> trig]
    ELSE IF ~pr[i].p
         THEN \* fully known now: remove_partials(versions) (fix S2)
              InsertPartials([mem EXCEPT !.partials = {p \in @ : p.v \notin pr[i].lo..pr[i].hi}], pr, i + 1, trig)
    ELSE LET v == pr[i].lo
             got == IF HasPartial(mem.partials, v)
                    THEN [PartialOf(mem.partials, v) EXCEPT !.seqs = @ \cup pr[i].seqs]
                    ELSE [v |-> v, seqs |-> pr[i].seqs, last |-> pr[i].last]
             mem2 == [max |-> IF HasPartial(mem.partials, v) THEN mem.max ELSE Max2(mem.max, v),
                      partials |-> {p \in mem.partials : p.v # v} \cup {got}]
         IN InsertPartials(mem2, pr, i + 1, IF PvCovered(got) THEN trig \cup {v} ELSE trig)

-----------------------------------------------------------------------------
Init == /\ max = 0 /\ needed = {} /\ partials = {} /\ gapRows = {} /\ seqRows = {} /\ bufRows = {}
        /\ dbv = 0 /\ merged = {} /\ pendApply = {} /\ pendClear = {} /\ err = FALSE

(* process_multiple_changes for a batch of changesets of this actor *)
Deliver(b) ==
    LET st0 == [seqRows |-> seqRows, bufRows |-> bufRows, dbv |-> dbv, merged |-> merged, pendClear |-> pendClear, seen |-> NoneSeen,
                processed |-> <<>>, err |-> FALSE]
        st == FoldBatch(st0, b, 1)
        VS == UNION {st.processed[i].lo..st.processed[i].hi : i \in 1..Len(st.processed)}
    IN IF Len(st.processed) = 0
       THEN /\ err' = (err \/ st.err)
            /\ UNCHANGED <<max, needed, partials, gapRows, seqRows, bufRows, dbv, merged, pendApply, pendClear>>
       ELSE LET idb == InsertDb(max, needed, partials, gapRows, VS)
                post == InsertPartials([max |-> idb.max, partials |-> idb.partials], st.processed, 1, {})
            IN IF idb.err
               THEN \* the whole transaction fails and is rolled back
                    /\ err' = TRUE
                    /\ UNCHANGED <<max, needed, partials, gapRows, seqRows, bufRows, dbv, merged, pendApply, pendClear>>
               ELSE /\ max' = post.mem.max
                    /\ needed' = idb.needed
                    /\ partials' = post.mem.partials
                    /\ gapRows' = idb.rows
                    /\ seqRows' = st.seqRows
                    /\ bufRows' = st.bufRows
                    /\ dbv' = st.dbv
                    /\ merged' = st.merged
                    /\ pendClear' = st.pendClear
                    /\ pendApply' = pendApply \cup post.trig
                    /\ err' = (err \/ st.err)

(* process_fully_buffered_changes for a consumed trigger *)
ApplyBuffered(v) ==
    /\ v \in pendApply
    /\ pendApply' = pendApply \ {v}
    /\ IF ~HasPartial(partials, v) \/ ~PvCovered(PartialOf(partials, v))
       THEN UNCHANGED <<max, needed, partials, gapRows, seqRows, bufRows, dbv, merged, pendClear, err>>
       ELSE LET idb == InsertDb(max, needed, partials, gapRows, {v})
                present == \E b \in bufRows : b[1] = v
            IN IF idb.err
               THEN /\ err' = TRUE
                    /\ UNCHANGED <<max, needed, partials, gapRows, seqRows, bufRows, dbv, merged, pendClear>>
               ELSE /\ max' = idb.max /\ needed' = idb.needed /\ partials' = idb.partials /\ gapRows' = idb.rows
                    /\ merged' = IF present THEN merged \cup {v} ELSE merged
                    /\ dbv' = IF present THEN Max2(dbv, v) ELSE dbv
                    /\ pendClear' = pendClear \cup {v}
                    /\ UNCHANGED <<seqRows, bufRows, err>>

(* one round of clear_buffered_meta_loop for a consumed trigger *)
ClearMeta(v) ==
    /\ v \in pendClear
    /\ pendClear' = pendClear \ {v}
    /\ seqRows' = {r \in seqRows : r.v # v}
    /\ bufRows' = {b \in bufRows : b[1] # v}
    /\ UNCHANGED <<max, needed, partials, gapRows, dbv, merged, pendApply, err>>

(* BookedVersions::from_conn on the durable state *)
ReloadMem ==
    LET vs == {r.v : r \in seqRows}
        P == {[v |-> v,
               seqs |-> UNION {r.s..r.e : r \in {q \in seqRows : q.v = v}},
               last |-> (CHOOSE r \in seqRows : r.v = v).last] : v \in vs}
    IN [max |-> IF vs = {} THEN dbv ELSE Max2(dbv, MaxOf(vs)),
        needed |-> Elems(gapRows),
        partials |-> P]

(* crash + restart: memory and pending triggers are lost; run_root re-triggers covered partials *)
Restart ==
    LET m == ReloadMem IN
    /\ max' = m.max /\ needed' = m.needed /\ partials' = m.partials
    /\ pendApply' = {p.v : p \in {q \in m.partials : PvCovered(q)}}
    /\ pendClear' = {}
    \* "recorded as cleared" is only durable up to the rebuilt head (see C02_ReloadEq)
    /\ merged' = {v \in merged : v <= m.max}
    /\ UNCHANGED <<gapRows, seqRows, bufRows, dbv, err>>

Batches == UNION {[1..n -> Chunks] : n \in 1..MaxBatch}

Next == \/ \E b \in Batches : Deliver(b)
        \/ \E v \in V : ApplyBuffered(v)
        \/ \E v \in V : ClearMeta(v)
        \/ Restart

Spec == Init /\ [][Next]_vars

-----------------------------------------------------------------------------
(* generate_sync for this actor *)
Adv(mx, nd, P) ==
    [head |-> mx,
     need |-> IF mx = 0 THEN {} ELSE nd,
     partial |-> IF mx = 0 THEN {} ELSE {[v |-> p.v, missing |-> Gaps(p.seqs, 0, p.last)] : p \in {q \in P : ~PvComplete(q)}}]
AdvMem == Adv(max, needed, partials)
AdvReload == LET m == ReloadMem IN Adv(m.max, m.needed, m.partials)

Heads == 1..max
AdvNeed == AdvMem.need
AdvPartialV == {p.v : p \in AdvMem.partial}
AdvHeld == (Heads \ AdvNeed) \ AdvPartialV
RowSeqs(v) == UNION {r.s..r.e : r \in {q \in seqRows : q.v = v}}
RowLast(v) == (CHOOSE r \in seqRows : r.v = v).last
(* completely buffered by committed transactions, apply pending: stored, served from the buffer (C05) *)
FullyBuffered == {v \in {r.v : r \in seqRows} : Gaps(RowSeqs(v), 0, RowLast(v)) = {}}
Merged == merged
DurablyHeld == Merged \cup FullyBuffered

(* Known finding S2r (what is left of S2 after its fix): the seq/buffered rows of a version that a     *)
(* committed complete or empty changeset recorded as applied/cleared are only deleted by the          *)
(* asynchronous clear_buffered_meta round; until then (and for good if the process dies before it)    *)
(* from_conn rebuilds a partial record for that version.                                              *)
StaleV == IF KF_S2 THEN {v \in Merged : \E r \in seqRows : r.v = v} ELSE {}
DropStale(a) == [a EXCEPT !.partial = {p \in @ : p.v \notin StaleV}]

TypeOK == /\ max \in 0..MaxV /\ needed \subseteq V /\ dbv \in 0..MaxV
          /\ \A p \in partials : p.v \in V /\ p.seqs \subseteq S /\ p.last \in S
          /\ \A p, q \in partials : p.v = q.v => p = q

(* C02: a version is never advertised as held unless the transaction that stored it committed *)
C02_HeldIsDurable == AdvHeld \subseteq DurablyHeld
(* C02: needed is exactly what is inside the head and neither held nor partially received *)
C02_NeedExact == AdvNeed = (Heads \ Merged) \ {r.v : r \in seqRows}
(* C02: nothing is in two classes *)
C02_Disjoint == /\ AdvNeed \cap AdvPartialV = {}
                /\ (AdvPartialV \cap Merged) \subseteq StaleV
                /\ AdvNeed \cap DurablyHeld = {}
(* C02: a partial version is advertised with exactly its missing sequence ranges *)
C02_PartialExact ==
    /\ \A p \in {q \in AdvMem.partial : q.v \notin StaleV} : p.missing = (0..RowLast(p.v)) \ RowSeqs(p.v)
    /\ \A v \in {r.v : r \in seqRows} : (v \notin DurablyHeld /\ Gaps(RowSeqs(v), 0, RowLast(v)) # {})
            => v \in AdvPartialV
(* C02: persisted gap rows == in-memory needed, in normal form, inside 1..head *)
C02_RowsMatch == /\ gapRows = Runs(needed)
                 /\ \A r \in gapRows : r[1] >= 1 /\ r[2] <= max
                 /\ \A p \in partials : (~PvCovered(p) /\ p.v \notin StaleV) => RowSeqs(p.v) = p.seqs
                 /\ \A v \in {r.v : r \in seqRows} : Cardinality({q \in seqRows : q.v = v}) >= 1
                 /\ \A q, r \in seqRows : (q.v = r.v /\ q # r) => (q.e + 1 < r.s \/ r.e + 1 < q.s)
(* C02/C06: what from_conn rebuilds advertises the same sets *)
(* The head is rebuilt from crsql_db_versions and the seq rows, which an Empty changeset below the    *)
(* current head does not advance: the rebuilt head may be lower, but only versions recorded as        *)
(* cleared, or still needed, can be forgotten that way (they are simply asked for again).             *)
C02_ReloadEq == LET r == DropStale(AdvReload) m == DropStale(AdvMem) IN
    /\ r.partial = m.partial
    /\ r.head <= m.head
    /\ (r.need \cap (1..r.head)) = (m.need \cap (1..r.head))
    \* what the rebuilt state advertises as held is durably held (C06)
    /\ (((1..r.head) \ r.need) \ {p.v : p \in AdvReload.partial}) \subseteq DurablyHeld
C02_NoErr == ~err
(* a covered partial is either pending apply or applied (C03 in the small) *)
CoveredIsPending == \A p \in partials : (PvCovered(p) /\ p.v \notin merged) => p.v \in pendApply

(* the abstract state handed to the replay harness *)
State == [max |-> max, needed |-> needed, partials |-> partials, gapRows |-> gapRows, seqRows |-> seqRows,
          bufRows |-> bufRows, dbv |-> dbv, pendApply |-> pendApply, pendClear |-> pendClear,
          adv |-> AdvMem, advReload |-> AdvReload]
=============================================================================
