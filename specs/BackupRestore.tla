--------------------------- MODULE BackupRestore ---------------------------
(* `corrosion backup` / `corrosion restore` (crates/klukai/src/main.rs): cr-sqlite stores the author of every    *)
(* cell as an ordinal into crsql_site_id, ordinal 0 being "this node".  Backup moves the source's own actor to    *)
(* a fresh ordinal and rewrites the clock rows; restore optionally swaps the destination's actor back to         *)
(* ordinal 0; a node opening a database without an ordinal-0 row gets a new actor id there.                       *)
EXTENDS Naturals, FiniteSets, TLC

CONSTANTS Actors, Cells, NewActor

VARIABLES site,     \* [ordinal -> actor] (a partial function: set of <<ordinal, actor>>)
          author,   \* [Cells -> ordinal]
          phase,    \* "source" | "backup" | "restored"
          truth,    \* ghost: [Cells -> actor] who really authored each cell
          keep      \* the actor id the destination wants to keep ("none" == fresh node)
vars == <<site, author, phase, truth, keep>>

Ord(a) == CHOOSE o \in {p[1] : p \in site} : <<o, a>> \in site
ActorAt(o) == CHOOSE a \in Actors \cup {NewActor} : <<o, a>> \in site
Known(a) == \E p \in site : p[2] = a

Init == /\ \E self \in Actors :
            \E others \in SUBSET (Actors \ {self}) :
               \E f \in [others -> 1..Cardinality(Actors)] :
                  /\ \A x, y \in others : x # y => f[x] # f[y]
                  /\ site = {<<0, self>>} \cup {<<f[a], a>> : a \in others}
        /\ author \in [Cells -> {p[1] : p \in site}]
        /\ truth = [c \in Cells |-> ActorAt(author[c])]
        /\ phase = "source"
        /\ keep \in Actors \cup {"none"}

MaxOrd == CHOOSE o \in {p[1] : p \in site} : \A q \in site : q[1] <= o
Backup == /\ phase = "source"
          /\ LET self == ActorAt(0) n == MaxOrd + 1 IN
             /\ site' = (site \ {<<0, self>>}) \cup {<<n, self>>}
             /\ author' = [c \in Cells |-> IF author[c] = 0 THEN n ELSE author[c]]
          /\ phase' = "backup" /\ UNCHANGED <<truth, keep>>
Restore == /\ phase = "backup"
           /\ IF keep = "none"
              THEN /\ site' = site \cup {<<0, NewActor>>} /\ UNCHANGED author        \* a fresh identity takes ordinal 0
              ELSE IF Known(keep)
                   THEN LET o == Ord(keep) IN
                        /\ site' = (site \ {<<o, keep>>}) \cup {<<0, keep>>}
                        /\ author' = [c \in Cells |-> IF author[c] = o THEN 0 ELSE author[c]]
                   ELSE /\ site' = site \cup {<<0, keep>>} /\ UNCHANGED author
           /\ phase' = "restored" /\ UNCHANGED <<truth, keep>>
Next == Backup \/ Restore
Spec == Init /\ [][Next]_vars

(* C19: every change is still attributed to the actor that authored it *)
C19_Authorship == \A c \in Cells : (\E p \in site : p[1] = author[c]) /\ ActorAt(author[c]) = truth[c]
C19_OrdinalsUnique == \A p, q \in site : (p[1] = q[1] \/ p[2] = q[2]) => p = q
C19_SelfAtZero == phase = "restored" => (\E p \in site : p[1] = 0) /\ (keep # "none" => ActorAt(0) = keep)
=============================================================================
