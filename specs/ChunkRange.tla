---------------------------- MODULE ChunkRange ----------------------------
(* chunk_range (crates/klukai-agent/src/api/peer/mod.rs): range.step_by(k).map(|s| s..=min(s+k, end)) *)
EXTENDS Naturals, FiniteSets, Sequences, TLC, Json
CONSTANTS MaxHi, Ks
VARIABLES lo, hi, k
Blocks(l, h, c) == {<<b, IF b + c <= h THEN b + c ELSE h>> : b \in {x \in l..h : (x - l) % c = 0}}
Init == lo \in 1..MaxHi /\ hi \in lo..MaxHi /\ k \in Ks
Next == UNCHANGED <<lo, hi, k>>
Spec == Init /\ [][Next]_<<lo, hi, k>>
(* C08: the union of the sub-ranges is exactly the requested range, none is empty *)
UnionExact == UNION {r[1]..r[2] : r \in Blocks(lo, hi, k)} = lo..hi
NonEmpty == \A r \in Blocks(lo, hi, k) : r[1] <= r[2]
WithinChunk == \A r \in Blocks(lo, hi, k) : r[2] - r[1] <= k
Export == PrintT("REPLAY " \o ToJson([lo |-> lo, hi |-> hi, k |-> k, blocks |-> Blocks(lo, hi, k)]))
=============================================================================
