----------------------------- MODULE SubCatchUp -----------------------------
(* Attaching / resuming a subscriber while the matcher keeps producing changes                           *)
(* (crates/klukai-agent/src/api/public/pubsub.rs: catch_up_sub, its queue task, catch_up_sub_anew/_from,  *)
(* forward_sub_to_sender; crates/klukai-types/src/pubsub.rs: handle_candidates sends the change events     *)
(* before the sub-database transaction commits, last_change_id_sent).                                       *)
EXTENDS Naturals, Sequences, FiniteSets, TLC

CONSTANTS MaxId,      \* the matcher produces changes 1..MaxId
          Cap,        \* capacity of the subscriber's broadcast receiver
          QCap,       \* capacity of the catch-up queue
          From,       \* 0: attach from scratch (snapshot); n > 0: resume after change id n (n must be committed at attach time)
          FixS6       \* FALSE: events left in the broadcast receiver are forwarded unfiltered (code as found)

VARIABLES emitted,    \* last change id sent to the subscribers (== last_change_id_sent)
          committed,  \* last change id committed in the subscription database
          rxbuf,      \* the subscriber's broadcast receiver (ids), lagged flag
          lagged,
          queue,      \* ids buffered by the queue task
          qstate,     \* "run" | "exited" | "failed"
          pc,         \* subscriber's program counter
          last,       \* last_change_id
          lastSub,    \* last_sub_change_id (0 == None)
          pend,       \* pending_event (0 == None)
          tries,
          cancelled,
          out         \* what the client receives: Seq of [k |-> "eoq"|"change"|"error"|"closed", id]
vars == <<emitted, committed, rxbuf, lagged, queue, qstate, pc, last, lastSub, pend, tries, cancelled, out>>

Init == /\ emitted \in 0..MaxId /\ committed = emitted      \* attach at any point of the history
        /\ (From > 0 => From <= committed)
        /\ rxbuf = <<>> /\ lagged = FALSE /\ queue = <<>> /\ qstate = "run"
        /\ pc = "snapshot" /\ last = 0 /\ lastSub = 0 /\ pend = 0 /\ tries = 0 /\ cancelled = FALSE /\ out = <<>>

(* matcher *)
Emit == /\ emitted < MaxId /\ emitted = committed     \* one batch at a time: events first ...
        /\ emitted' = emitted + 1
        /\ IF Len(rxbuf) < Cap THEN rxbuf' = Append(rxbuf, emitted + 1) /\ UNCHANGED lagged
           ELSE rxbuf' = Tail(rxbuf) \o <<emitted + 1>> /\ lagged' = TRUE     \* the oldest value is overwritten
        /\ UNCHANGED <<committed, queue, qstate, pc, last, lastSub, pend, tries, cancelled, out>>
Commit == /\ committed < emitted /\ committed' = emitted                      \* ... then the commit
          /\ UNCHANGED <<emitted, rxbuf, lagged, queue, qstate, pc, last, lastSub, pend, tries, cancelled, out>>

(* queue task: select! { cancelled => break, Ok(res) = sub_rx.recv() => res } *)
QRecv == /\ qstate = "run" /\ rxbuf # <<>> /\ ~lagged
         /\ IF Len(queue) < QCap THEN queue' = Append(queue, Head(rxbuf)) /\ UNCHANGED qstate
            ELSE qstate' = "failed" /\ UNCHANGED queue                        \* "catching up too slowly"
         /\ rxbuf' = Tail(rxbuf)
         /\ UNCHANGED <<emitted, committed, lagged, pc, last, lastSub, pend, tries, cancelled, out>>
(* as found: `Ok(res) = sub_rx.recv()` does not match Err(Lagged): the lag notice is swallowed, the branch  *)
(* is disabled and the task only waits for the cancellation; fixed: the task fails and the stream ends     *)
(* with an error                                                                                            *)
QLagged == /\ qstate = "run" /\ lagged /\ lagged' = FALSE
           /\ qstate' = IF FixS6 THEN "failed" ELSE "lagwait"
           /\ UNCHANGED <<emitted, committed, rxbuf, queue, pc, last, lastSub, pend, tries, cancelled, out>>
QExit == /\ qstate \in {"run", "lagwait"} /\ cancelled /\ qstate' = "exited"
         /\ UNCHANGED <<emitted, committed, rxbuf, lagged, queue, pc, last, lastSub, pend, tries, cancelled, out>>

RECURSIVE Changes(_, _)
Changes(a, b) == IF a > b THEN <<>> ELSE <<[k |-> "change", id |-> a]>> \o Changes(a + 1, b)

(* catch_up_sub_anew (snapshot in one read transaction) or catch_up_sub_from *)
Snapshot == /\ pc = "snapshot"
            /\ out' = IF From = 0 THEN Append(out, [k |-> "eoq", id |-> committed]) ELSE out \o Changes(From + 1, committed)
            /\ last' = committed /\ pc' = "peek"
            /\ UNCHANGED <<emitted, committed, rxbuf, lagged, queue, qstate, lastSub, pend, tries, cancelled>>
Peek == /\ pc = "peek"
        /\ IF queue # <<>> THEN /\ pend' = Head(queue) /\ lastSub' = Head(queue) /\ queue' = Tail(queue)
           ELSE /\ lastSub' = (IF emitted <= last THEN 0 ELSE emitted) /\ UNCHANGED <<pend, queue>>
        /\ pc' = "retry"
        /\ UNCHANGED <<emitted, committed, rxbuf, lagged, qstate, last, tries, cancelled, out>>
Retry == /\ pc = "retry"
         /\ IF lastSub # 0 /\ lastSub >= last + 1
            THEN IF tries < 5
                 THEN /\ out' = out \o Changes(last + 1, committed) /\ last' = committed /\ tries' = tries + 1 /\ UNCHANGED pc
                 ELSE /\ out' = Append(out, [k |-> "error", id |-> 0]) /\ pc' = "end" /\ UNCHANGED <<last, tries>>
            ELSE /\ pc' = "pending" /\ UNCHANGED <<out, last, tries>>
         /\ UNCHANGED <<emitted, committed, rxbuf, lagged, queue, qstate, lastSub, pend, cancelled>>
SendPending == /\ pc = "pending"
               /\ IF pend # 0 /\ pend > last THEN out' = Append(out, [k |-> "change", id |-> pend]) /\ last' = pend
                  ELSE UNCHANGED <<out, last>>
               /\ cancelled' = TRUE /\ pc' = "drain"
               /\ UNCHANGED <<emitted, committed, rxbuf, lagged, queue, qstate, lastSub, pend, tries>>
Drain == /\ pc = "drain"
         /\ IF queue # <<>>
            THEN /\ queue' = Tail(queue)
                 /\ IF Head(queue) > last THEN out' = Append(out, [k |-> "change", id |-> Head(queue)]) /\ last' = Head(queue)
                    ELSE UNCHANGED <<out, last>>
                 /\ UNCHANGED pc
            ELSE /\ qstate \in {"exited", "failed"}                       \* the channel closes when the task ended
                 /\ IF qstate = "failed" THEN out' = Append(out, [k |-> "error", id |-> 0]) /\ pc' = "end"
                    ELSE pc' = "forward" /\ UNCHANGED out
                 /\ UNCHANGED <<queue, last>>
         /\ UNCHANGED <<emitted, committed, rxbuf, lagged, qstate, lastSub, pend, tries, cancelled>>
(* forward_sub_to_sender *)
Forward == /\ pc = "forward"
           /\ IF lagged THEN out' = Append(out, [k |-> "closed", id |-> 0]) /\ pc' = "end" /\ UNCHANGED <<rxbuf, last>>
              ELSE /\ rxbuf # <<>> /\ rxbuf' = Tail(rxbuf)
                   /\ IF FixS6 /\ Head(rxbuf) <= last THEN UNCHANGED <<out, last, pc>>
                      ELSE IF FixS6 /\ Head(rxbuf) > last + 1
                           THEN out' = Append(out, [k |-> "error", id |-> 0]) /\ pc' = "end" /\ UNCHANGED last
                           ELSE /\ out' = Append(out, [k |-> "change", id |-> Head(rxbuf)])
                                /\ last' = IF Head(rxbuf) > last THEN Head(rxbuf) ELSE last
                                /\ UNCHANGED pc
           /\ UNCHANGED <<emitted, committed, lagged, queue, qstate, lastSub, pend, tries, cancelled>>

Next == Emit \/ Commit \/ QRecv \/ QLagged \/ QExit \/ Snapshot \/ Peek \/ Retry \/ SendPending \/ Drain \/ Forward
Spec == Init /\ [][Next]_vars

-----------------------------------------------------------------------------
(* C12: the ids delivered after the snapshot marker (or the resume point) are contiguous and strictly     *)
(* increasing; the only way not to continue is to stop with an error / by closing                           *)
Ids == [i \in 1..Len(out) |-> out[i].id]
Start == IF From = 0 THEN (IF Len(out) > 0 THEN out[1].id ELSE 0) ELSE From
ChangeIdx == {i \in 1..Len(out) : out[i].k = "change"}
C12_Contiguous == \A i \in ChangeIdx :
    LET prev == {j \in ChangeIdx : j < i} IN
    out[i].id = (IF prev = {} THEN Start ELSE out[CHOOSE j \in prev : \A h \in prev : h <= j].id) + 1
C12_StopsAfterError == \A i \in 1..Len(out) : out[i].k \in {"error", "closed"} => i = Len(out)
(* the client library (SubscriptionStream) reports any gap it observes: id # last + 1 => MissedChange *)
=============================================================================
