--------------------------- MODULE MCReplication ---------------------------
EXTENDS Replication
CONSTANT MaxMsgs
(* bound the exploration: number of messages in flight *)
MsgBound == Cardinality(msgs) <= MaxMsgs
=============================================================================
