------------------------------ MODULE Cluster ------------------------------
(* Cluster separation (crates/klukai-agent/src/agent/uni.rs: the filter on the payload's cluster id;          *)
(* api/peer/mod.rs: serve_sync rejects a SyncStart declaring another cluster; broadcast/mod.rs and             *)
(* handlers.rs: targets and sync candidates restricted to same-cluster members).  A frame without the          *)
(* trailing cluster id field decodes as cluster 0.                                                               *)
EXTENDS Naturals, FiniteSets, TLC

CONSTANTS Nodes, Ids,       \* cluster ids
          DynamicSend,      \* TRUE: the broadcast loop reads the sender's current cluster id for every frame and target choice (the code);
                            \* FALSE: the id read once when the loop started
          Dynamic           \* TRUE: the uni-stream filter reads the receiver's current cluster id (fixed); FALSE: the id captured when the connection was accepted (code as found)

Anybody == 99         \* sender of a hand-built frame (its true cluster is unknown)
VARIABLES cluster,   \* [Nodes -> Ids]: current cluster id of each node
          loopId,    \* [Nodes -> Ids]: the cluster id each node had when its broadcast loop started
          conns,     \* set of [from, to, captured]: accepted connections with the id captured at accept time
          applied,   \* set of [to, declared, at]: payloads handed to the ingest pipeline, with the receiver's cluster id at that moment
          sync       \* set of [client, server, declared, at, answer]
vars == <<cluster, loopId, conns, applied, sync>>

Init == cluster \in [Nodes -> Ids] /\ loopId = cluster /\ conns = {} /\ applied = {} /\ sync = {}

Connect(s, r) == /\ s # r /\ ~\E c \in conns : c.from = s /\ c.to = r
                 /\ conns' = conns \cup {[from |-> s, to |-> r, captured |-> cluster[r]]}
                 /\ UNCHANGED <<cluster, loopId, applied, sync>>
ChangeCluster(n, c) == /\ cluster[n] # c /\ cluster' = [cluster EXCEPT ![n] = c] /\ UNCHANGED <<loopId, conns, applied, sync>>
(* a broadcast payload arrives on an accepted connection, declaring cluster d (an old frame declares 0) *)
SendUni(conn, d) ==
    /\ conn \in conns
    /\ LET filter == IF Dynamic THEN cluster[conn.to] ELSE conn.captured IN
       IF d = filter THEN applied' = applied \cup {[to |-> conn.to, declared |-> d, at |-> cluster[conn.to], sender |-> Anybody]} ELSE UNCHANGED applied
    /\ UNCHANGED <<cluster, loopId, conns, sync>>
(* the broadcast loop of node s sends one of s's own changes: it stamps the frame with "its" cluster id and picks  *)
(* its targets among the members of that cluster (membership is assumed accurate)                                  *)
Broadcast(conn) ==
    /\ conn \in conns
    /\ LET s == conn.from
           r == conn.to
           d == IF DynamicSend THEN cluster[s] ELSE loopId[s]
           filter == IF Dynamic THEN cluster[r] ELSE conn.captured
       IN IF cluster[r] = d /\ d = filter
          THEN applied' = applied \cup {[to |-> r, declared |-> d, at |-> cluster[r], sender |-> cluster[s]]}
          ELSE UNCHANGED applied
    /\ UNCHANGED <<cluster, loopId, conns, sync>>
(* a sync session is opened declaring cluster d *)
SyncStart(c, s, d) ==
    /\ c # s
    /\ sync' = sync \cup {[client |-> c, server |-> s, declared |-> d, at |-> cluster[s],
                           answer |-> IF d = cluster[s] THEN "state" ELSE "rejected:different_cluster"]}
    /\ UNCHANGED <<cluster, loopId, conns, applied>>

Next == \/ \E s, r \in Nodes : Connect(s, r)
        \/ \E n \in Nodes, c \in Ids : ChangeCluster(n, c)
        \/ \E conn \in conns, d \in Ids : SendUni(conn, d)
        \/ \E conn \in conns : Broadcast(conn)
        \/ \E c, s \in Nodes, d \in Ids : SyncStart(c, s, d)
Spec == Init /\ [][Next]_vars

(* C16: a node never applies a change sent by a node declaring a different cluster id *)
C16_NoCrossApply == \A a \in applied : a.declared = a.at
(* C16: what a node applies of another node's own broadcasts was written inside the receiver's cluster *)
C16_NoCrossData == \A a \in applied : a.sender # Anybody => a.sender = a.at
(* C16: such a node is refused with an explicit rejection instead of data *)
C16_SyncRejected == \A x \in sync : (x.declared # x.at) = (x.answer = "rejected:different_cluster")
=============================================================================
