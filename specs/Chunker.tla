------------------------------ MODULE Chunker ------------------------------
(* ChunkedChanges::next (crates/klukai-types/src/change.rs) line by line, with set_max_buf_size       *)
(* between chunks (send_change_chunks adapts the limit, crates/klukai-agent/src/api/peer/mod.rs),     *)
(* and chunk_range (peer/mod.rs) for version-range requests.                                           *)
EXTENDS Naturals, Sequences, FiniteSets, TLC

CONSTANTS MaxStart, MaxLast, Sizes, Limits, MaxLimitChanges

VARIABLES input,       \* the ordered changes: sequence of [seq, size]
          start, last, \* requested first / last sequence
          idx,         \* next element of input (the Peekable iterator)
          lastStart,   \* last_start_seq
          lastPushed,  \* last_pushed_seq
          done,
          lims,        \* history: max_buf_size in force at each next() call
          out          \* produced chunks: sequence of [chs, lo, hi]
vars == <<input, start, last, idx, lastStart, lastPushed, done, lims, out>>

RECURSIVE IncSeqs(_, _)
(* all strictly increasing sequences of [seq, size] with seq in lo..hi *)
IncSeqs(lo, hi) ==
    IF lo > hi THEN {<<>>}
    ELSE LET rest == IncSeqs(lo + 1, hi)
         IN rest \cup {<<[seq |-> lo, size |-> z]>> \o r : z \in Sizes, r \in rest}

Init == /\ start \in 0..MaxStart
        /\ last \in start..MaxLast
        /\ input \in IncSeqs(start, last)
        /\ idx = 1 /\ lastStart = start /\ lastPushed = 0 /\ done = FALSE /\ lims = <<>> /\ out = <<>>

(* the loop of next(): consume from position i with `buf` bytes buffered and `chs` collected.        *)
(* Result: [chs, i, pushed, ret] where ret = "cut" (size limit reached, more rows follow) or "end".  *)
RECURSIVE Loop(_, _, _, _, _)
Loop(i, buf, chs, pushed, lim) ==
    IF i > Len(input) THEN [chs |-> chs, i |-> i, pushed |-> pushed, ret |-> "end"]
    ELSE LET c == input[i]
             buf2 == buf + c.size
             chs2 == Append(chs, c.seq)
         IN IF c.seq = last THEN [chs |-> chs2, i |-> i + 1, pushed |-> c.seq, ret |-> "end"]
            ELSE IF buf2 >= lim
                 THEN IF i + 1 > Len(input)
                      THEN [chs |-> chs2, i |-> i + 1, pushed |-> c.seq, ret |-> "end"]
                      ELSE [chs |-> chs2, i |-> i + 1, pushed |-> c.seq, ret |-> "cut"]
                 ELSE Loop(i + 1, buf2, chs2, c.seq, lim)

LimitChanges(h) == Cardinality({i \in 1..(Len(h) - 1) : h[i] # h[i + 1]})

Next(lim) ==
    /\ ~done
    /\ LimitChanges(Append(lims, lim)) <= MaxLimitChanges
    /\ lims' = Append(lims, lim)
    /\ LET r == Loop(idx, 0, <<>>, lastPushed, lim) IN
       /\ idx' = r.i
       /\ lastPushed' = r.pushed
       /\ IF r.ret = "cut"
          THEN /\ out' = Append(out, [chs |-> r.chs, lo |-> lastStart, hi |-> r.pushed])
               /\ lastStart' = r.pushed + 1
               /\ done' = FALSE
          ELSE /\ out' = Append(out, [chs |-> r.chs, lo |-> lastStart, hi |-> last])
               /\ lastStart' = lastStart
               /\ done' = TRUE
    /\ UNCHANGED <<input, start, last>>

Step == \E lim \in Limits : Next(lim)
Spec == Init /\ [][Step]_vars

-----------------------------------------------------------------------------
(* C08: the chunks tile start..last exactly *)
Flat(o) == LET RECURSIVE F(_) F(i) == IF i > Len(o) THEN <<>> ELSE o[i].chs \o F(i + 1) IN F(1)
InputSeqs == [i \in 1..Len(input) |-> input[i].seq]

TilesPrefix ==   \* holds at every state: what was produced so far is a correct prefix of a tiling
    /\ (Len(out) > 0 => out[1].lo = start)
    /\ \A i \in 1..Len(out) : out[i].lo <= out[i].hi
    /\ \A i \in 1..(Len(out) - 1) : out[i + 1].lo = out[i].hi + 1
    /\ \A i \in 1..Len(out) : \A j \in 1..Len(out[i].chs) : out[i].chs[j] >= out[i].lo /\ out[i].chs[j] <= out[i].hi
    /\ Flat(out) = SubSeq(InputSeqs, 1, Len(Flat(out)))
TilesWhenDone ==
    done => /\ Len(out) >= 1
            /\ out[Len(out)].hi = last
            /\ Flat(out) = InputSeqs
            /\ \A i \in 1..Len(out) : out[i].lo <= out[i].hi
(* the iterator always terminates: every call consumes input or finishes *)
Progress == [][idx' > idx \/ done']_vars
=============================================================================
