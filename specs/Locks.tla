------------------------------- MODULE Locks -------------------------------
(* Deadlock freedom of the tasks that use the write connection, the Bookie lock and the per-actor Booked   *)
(* locks (tokio RwLock: FIFO, write-preferring: a reader queues behind an earlier waiting writer).          *)
(* A program is a sequence of steps <<"acq", lock, kind>> / <<"rel", lock>>; the programs are either the     *)
(* hand-written ones below (as read from the code) or the ones extracted from the events of a real run.      *)
EXTENDS Naturals, FiniteSets, Sequences, TLC

CONSTANTS Tasks, Combos      \* Combos: set of functions [Tasks -> program]; a program is a Seq of steps [op, lock, kind]

VARIABLE ProgOf              \* the combination under analysis (chosen in Init, never changes)

VARIABLES pc,      \* [Tasks -> Nat]: next step
          held,    \* [locks -> set of <<task, kind>>] current holders
          waitq    \* [locks -> Seq(<<task, kind>>)] FIFO of waiters
vars == <<pc, held, waitq, ProgOf>>

LockNames == UNION {UNION {{c[t][i].lock : i \in 1..Len(c[t])} : t \in Tasks} : c \in Combos}

Init == /\ ProgOf \in Combos
        /\ pc = [t \in Tasks |-> 1] /\ held = [l \in LockNames |-> {}] /\ waitq = [l \in LockNames |-> <<>>]

Step(t) == ProgOf[t][pc[t]]
Waiting(t) == \E l \in LockNames : \E i \in 1..Len(waitq[l]) : waitq[l][i][1] = t

(* the "conn" lock models the single write connection: exclusive, FIFO *)
CanGrant(l, k) == IF k = "w" THEN held[l] = {} ELSE \A h \in held[l] : h[2] = "r"

(* a task reaches an acquire: it gets the lock at once only if it is compatible AND nobody queues already *)
Acquire(t) ==
    /\ pc[t] <= Len(ProgOf[t]) /\ Step(t).op = "acq" /\ ~Waiting(t)
    /\ LET l == Step(t).lock k == Step(t).kind IN
       IF waitq[l] = <<>> /\ CanGrant(l, k)
       THEN /\ held' = [held EXCEPT ![l] = @ \cup {<<t, k>>}] /\ pc' = [pc EXCEPT ![t] = @ + 1] /\ UNCHANGED <<waitq, ProgOf>>
       ELSE /\ waitq' = [waitq EXCEPT ![l] = Append(@, <<t, k>>)] /\ UNCHANGED <<pc, held, ProgOf>>
(* the head of a lock's queue is granted when compatible *)
Grant(l) ==
    /\ waitq[l] # <<>> /\ CanGrant(l, Head(waitq[l])[2])
    /\ LET w == Head(waitq[l]) IN
       /\ held' = [held EXCEPT ![l] = @ \cup {w}]
       /\ waitq' = [waitq EXCEPT ![l] = Tail(@)]
       /\ pc' = [pc EXCEPT ![w[1]] = @ + 1]
       /\ UNCHANGED ProgOf
Release(t) ==
    /\ pc[t] <= Len(ProgOf[t]) /\ Step(t).op = "rel"
    /\ held' = [held EXCEPT ![Step(t).lock] = {h \in @ : h[1] # t}]
    /\ pc' = [pc EXCEPT ![t] = @ + 1] /\ UNCHANGED <<waitq, ProgOf>>

Done == \A t \in Tasks : pc[t] > Len(ProgOf[t])
Next == (\E t \in Tasks : Acquire(t) \/ Release(t)) \/ (\E l \in LockNames : Grant(l)) \/ (Done /\ UNCHANGED vars)
Spec == Init /\ [][Next]_vars

(* C20: no reachable state in which an unfinished task can never move == TLC's deadlock check on Spec  *)
(* (the only stuttering step allowed is the one after every task finished)                              *)
=============================================================================
