---- MODULE Sentinel_TTrace_1790181216 ----
EXTENDS Sequences, TLCExt, Sentinel, Toolbox, Naturals, TLC

_expression ==
    LET Sentinel_TEExpression == INSTANCE Sentinel_TEExpression
    IN Sentinel_TEExpression!expression
----

_trace ==
    LET Sentinel_TETrace == INSTANCE Sentinel_TETrace
    IN Sentinel_TETrace!trace
----

_inv ==
    ~(
        TLCGet("level") = Len(_TETrace)
        /\
        lost = (TRUE)
        /\
        relay = ([cl |-> 3, cv |-> 2, val |-> "c", scv |-> 0, sv |-> 4, sseq |-> 0, cver |-> 4, cseq |-> 0])
        /\
        cHas = ({4})
        /\
        client = ([cl |-> 3, cv |-> 0, val |-> "", scv |-> 0, sv |-> 4, sseq |-> 0, cver |-> 0, cseq |-> 0])
        /\
        rHas = ({4})
    )
----

_init ==
    /\ cHas = _TETrace[1].cHas
    /\ relay = _TETrace[1].relay
    /\ rHas = _TETrace[1].rHas
    /\ client = _TETrace[1].client
    /\ lost = _TETrace[1].lost
----

_next ==
    /\ \E i,j \in DOMAIN _TETrace:
        /\ \/ /\ j = i + 1
              /\ i = TLCGet("level")
        /\ cHas  = _TETrace[i].cHas
        /\ cHas' = _TETrace[j].cHas
        /\ relay  = _TETrace[i].relay
        /\ relay' = _TETrace[j].relay
        /\ rHas  = _TETrace[i].rHas
        /\ rHas' = _TETrace[j].rHas
        /\ client  = _TETrace[i].client
        /\ client' = _TETrace[j].client
        /\ lost  = _TETrace[i].lost
        /\ lost' = _TETrace[j].lost

\* Uncomment the ASSUME below to write the states of the error trace
\* to the given file in Json format. Note that you can pass any tuple
\* to `JsonSerialize`. For example, a sub-sequence of _TETrace.
    \* ASSUME
    \*     LET J == INSTANCE Json
    \*         IN J!JsonSerialize("Sentinel_TTrace_1790181216.json", _TETrace)

=============================================================================

 Note that you can extract this module `Sentinel_TEExpression`
  to a dedicated file to reuse `expression` (the module in the 
  dedicated `Sentinel_TEExpression.tla` file takes precedence 
  over the module `Sentinel_TEExpression` below).

---- MODULE Sentinel_TEExpression ----
EXTENDS Sequences, TLCExt, Sentinel, Toolbox, Naturals, TLC

expression == 
    [
        \* To hide variables of the `Sentinel` spec from the error trace,
        \* remove the variables below.  The trace will be written in the order
        \* of the fields of this record.
        cHas |-> cHas
        ,relay |-> relay
        ,rHas |-> rHas
        ,client |-> client
        ,lost |-> lost
        
        \* Put additional constant-, state-, and action-level expressions here:
        \* ,_stateNumber |-> _TEPosition
        \* ,_cHasUnchanged |-> cHas = cHas'
        
        \* Format the `cHas` variable as Json value.
        \* ,_cHasJson |->
        \*     LET J == INSTANCE Json
        \*     IN J!ToJson(cHas)
        
        \* Lastly, you may build expressions over arbitrary sets of states by
        \* leveraging the _TETrace operator.  For example, this is how to
        \* count the number of times a spec variable changed up to the current
        \* state in the trace.
        \* ,_cHasModCount |->
        \*     LET F[s \in DOMAIN _TETrace] ==
        \*         IF s = 1 THEN 0
        \*         ELSE IF _TETrace[s].cHas # _TETrace[s-1].cHas
        \*             THEN 1 + F[s-1] ELSE F[s-1]
        \*     IN F[_TEPosition - 1]
    ]

=============================================================================



Parsing and semantic processing can take forever if the trace below is long.
 In this case, it is advised to uncomment the module below to deserialize the
 trace from a generated binary file.

\*
\*---- MODULE Sentinel_TETrace ----
\*EXTENDS IOUtils, Sentinel, TLC
\*
\*trace == IODeserialize("Sentinel_TTrace_1790181216.bin", TRUE)
\*
\*=============================================================================
\*

---- MODULE Sentinel_TETrace ----
EXTENDS Sentinel, TLC

trace == 
    <<
    ([lost |-> FALSE,relay |-> [cl |-> 0, cv |-> 0, val |-> "", scv |-> 0, sv |-> 0, sseq |-> 0, cver |-> 0, cseq |-> 0],cHas |-> {},client |-> [cl |-> 0, cv |-> 0, val |-> "", scv |-> 0, sv |-> 0, sseq |-> 0, cver |-> 0, cseq |-> 0],rHas |-> {}]),
    ([lost |-> FALSE,relay |-> [cl |-> 3, cv |-> 2, val |-> "c", scv |-> 0, sv |-> 4, sseq |-> 0, cver |-> 4, cseq |-> 0],cHas |-> {},client |-> [cl |-> 0, cv |-> 0, val |-> "", scv |-> 0, sv |-> 0, sseq |-> 0, cver |-> 0, cseq |-> 0],rHas |-> {4}]),
    ([lost |-> TRUE,relay |-> [cl |-> 3, cv |-> 2, val |-> "c", scv |-> 0, sv |-> 4, sseq |-> 0, cver |-> 4, cseq |-> 0],cHas |-> {4},client |-> [cl |-> 3, cv |-> 0, val |-> "", scv |-> 0, sv |-> 4, sseq |-> 0, cver |-> 0, cseq |-> 0],rHas |-> {4}])
    >>
----


=============================================================================

---- CONFIG Sentinel_TTrace_1790181216 ----
CONSTANTS
    ColumnFirst = FALSE

INVARIANT
    _inv

CHECK_DEADLOCK
    \* CHECK_DEADLOCK off because of PROPERTY or INVARIANT above.
    FALSE

INIT
    _init

NEXT
    _next

CONSTANT
    _TETrace <- _trace

ALIAS
    _expression
=============================================================================
\* Generated on Wed Sep 23 16:33:41 UTC 2026