------------------------------- MODULE Ranges -------------------------------
(* rangemap::RangeInclusiveSet as the code uses it.  A RangeInclusiveSet over integers always     *)
(* coalesces adjacent/overlapping ranges, so it is exactly a finite set of integers; "iterating    *)
(* the set" yields its maximal runs.  These operators give the run view of a set.                  *)
EXTENDS Naturals, FiniteSets

MaxOf(S) == CHOOSE x \in S : \A y \in S : y <= x
MinOf(S) == CHOOSE x \in S : \A y \in S : x <= y
Max2(a, b) == IF a >= b THEN a ELSE b

(* maximal runs of S as <<lo, hi>> pairs == `for r in set.iter()` *)
Runs(S) == {<<a, CHOOSE b \in S : b >= a /\ (\A x \in a..b : x \in S) /\ (b + 1) \notin S>> :
               a \in {x \in S : x = 0 \/ (x - 1) \notin S}}

(* `set.get(&x)`: the run containing x (empty set or singleton) *)
RunOf(S, x) == {r \in Runs(S) : r[1] <= x /\ x <= r[2]}

(* `set.overlapping(&(lo..=hi))` *)
Overlapping(S, lo, hi) == {r \in Runs(S) : r[1] <= hi /\ r[2] >= lo}

(* `set.gaps(&(lo..=hi))` as a set of integers *)
Gaps(S, lo, hi) == (lo..hi) \ S

Elems(R) == UNION {r[1]..r[2] : r \in R}

Contiguous(S) == S = {} \/ S = MinOf(S)..MaxOf(S)
=============================================================================
