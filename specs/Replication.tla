---------------------------- MODULE Replication ----------------------------
(* The replication core of corrosion for N nodes: local transactions, change messages that the        *)
(* network may re-cut / duplicate / reorder / drop, ingest batches, buffered partial versions,          *)
(* buffered apply, meta clearing, sync serving, crash + restart.                                        *)
(*                                                                                                       *)
(* Code anchors: api/public/mod.rs (api_v1_transactions, make_broadcastable_changes), change.rs          *)
(* (insert_local_changes), broadcast/mod.rs (broadcast_changes), agent/util.rs                           *)
(* (process_multiple_changes, process_single_version, process_incomplete_version,                        *)
(* process_complete_version, process_fully_buffered_changes, clear_buffered_meta_loop),                  *)
(* klukai-types/agent.rs (BookedVersions, VersionsSnapshot), sync.rs (generate_sync,                      *)
(* compute_available_needs), api/peer/mod.rs (process_sync, handle_need), agent/run_root.rs + setup.rs   *)
(* (restart).                                                                                             *)
(*                                                                                                       *)
(* Data model: one replicated table, a row per key with one value column, upserts only; every write     *)
(* stores a value unique to its (node, version), so cr-sqlite's merge is: higher col_version wins, then  *)
(* higher value.  Node-local state is one record; every action is a function on that record == one      *)
(* SQLite commit plus the in-memory update made under the same lock.                                     *)
EXTENDS Naturals, FiniteSets, Sequences, TLC, Ranges

CONSTANTS N, K, MaxTx, MaxKeysPerTx, MaxBatch,
          FixS12     \* FALSE: start-up enumerates actors from site ordinals and seq rows only (code as found)

Nodes == 1..N
Keys == 1..K
V == 1..MaxTx

VARIABLES txlog,   \* [Nodes -> Seq(transaction)], a transaction is a Seq of [key, cv, val]; seq number = index - 1
          nodes,   \* [Nodes -> node record]
          msgs     \* change messages in flight (never removed: duplication and reordering for free)
vars == <<txlog, nodes, msgs>>

NoCell == [cv |-> 0, val |-> 0, site |-> 0, dbv |-> 0, seq |-> 0]
EmptyBook == [max |-> 0, needed |-> {}, partials |-> {}]
EmptyRows == [gaps |-> {}, seqs |-> {}, bufs |-> {}, dbv |-> 0]

InitNode == [cells |-> [k \in Keys |-> NoCell],
             book |-> [a \in Nodes |-> EmptyBook],          \* in-memory BookedVersions per actor
             rows |-> [a \in Nodes |-> EmptyRows],          \* durable bookkeeping rows per actor
             pendApply |-> {}, pendClear |-> {},            \* triggers sent, not yet consumed: sets of <<a, v>>
             ordinals |-> {},                               \* actors with a site ordinal (an impactful change was merged)
             merged |-> [a \in Nodes |-> {}],               \* ghost: versions stored/cleared by a committed transaction
             err |-> FALSE]

Change(a, v, s) == [key |-> txlog[a][v][s + 1].key, cv |-> txlog[a][v][s + 1].cv, val |-> txlog[a][v][s + 1].val,
                    site |-> a, dbv |-> v, seq |-> s]
LastSeq(a, v) == Len(txlog[a][v]) - 1
(* the sequence numbers of (a, v) that carry a change *)
SeqsOf(a, v) == {s \in 0..LastSeq(a, v) : txlog[a][v][s + 1].key # 0}

-----------------------------------------------------------------------------
(* cr-sqlite merge of one column change into a cell *)
Wins(ch, cell) == cell.cv = 0 \/ ch.cv > cell.cv \/ (ch.cv = cell.cv /\ ch.val > cell.val)
RECURSIVE MergeSeqs(_, _, _, _)
(* merge the changes of (a, v) with sequence numbers in S, ascending; returns [cells, impact] *)
MergeSeqs(cells, a, v, S) ==
    IF S = {} THEN [cells |-> cells, impact |-> FALSE]
    ELSE LET s == MinOf(S)
             ch == Change(a, v, s)
             w == Wins(ch, cells[ch.key])
             r == MergeSeqs(IF w THEN [cells EXCEPT ![ch.key] = [cv |-> ch.cv, val |-> ch.val, site |-> a, dbv |-> v, seq |-> s]] ELSE cells,
                            a, v, S \ {s})
         IN [cells |-> r.cells, impact |-> w \/ r.impact]

(* live changes of (a, v) at a node: what crsql_changes returns for site_id = a, db_version = v *)
Live(nd, a, v) == {k \in Keys : nd.cells[k].site = a /\ nd.cells[k].dbv = v}
LiveSeqs(nd, a, v) == {nd.cells[k].seq : k \in Live(nd, a, v)}

-----------------------------------------------------------------------------
(* BookedVersions *)
HasPartial(P, v) == \E p \in P : p.v = v
PartialOf(P, v) == CHOOSE p \in P : p.v = v
PvCovered(p) == Gaps(p.seqs, 0, p.last) = {}
ContainsVersion(bk, v) == v \notin bk.needed /\ bk.max >= v
Contains(bk, v, hasSeqs, Q) ==
    /\ ContainsVersion(bk, v)
    /\ (HasPartial(bk.partials, v) =>
            IF hasSeqs THEN Q \subseteq PartialOf(bk.partials, v).seqs ELSE PvCovered(PartialOf(bk.partials, v)))

MVersions(m) == IF m.k = "empty" THEN m.lo..m.hi ELSE {m.v}
MSeqs(m) == IF m.k = "empty" THEN {} ELSE m.lo..m.hi
MComplete(m) == m.k = "empty" \/ (m.lo = 0 /\ m.hi = m.last)
MNoChanges(m) == m.k = "empty" \/ m.seqs = {}
KnownAtStart(bk, m) == \A v \in MVersions(m) : Contains(bk, v, m.k = "full", MSeqs(m))

GapsChange(mx, nd, VS) ==
    LET per(r) ==
          LET lo == r[1]
              hi == r[2]
              ov == Overlapping(nd, lo, hi) \cup (IF lo >= 1 THEN RunOf(nd, lo - 1) ELSE {}) \cup RunOf(nd, hi + 1)
              gs == mx + 1
              gapIns == IF gs < lo THEN gs..lo ELSE {}
              ov2 == IF gs < lo THEN Overlapping(nd, gs, lo) ELSE {}
          IN [ins |-> Elems(ov \cup ov2) \cup gapIns, rem |-> ov \cup ov2]
        all == {per(r) : r \in Runs(VS)}
    IN [ins |-> (UNION {x.ins : x \in all}) \ VS, rem |-> UNION {x.rem : x \in all}, max |-> Max2(mx, MaxOf(VS))]

InsertDb(bk, gaps, VS) ==
    LET ch == GapsChange(bk.max, bk.needed, VS)
        rows1 == gaps \ ch.rem
        newRuns == Runs(ch.ins)
    IN [bk |-> [max |-> ch.max, needed |-> (bk.needed \ Elems(ch.rem)) \cup ch.ins,
                partials |-> {p \in bk.partials : p.v \notin Elems(ch.rem)}],
        gaps |-> rows1 \cup newRuns,
        err |-> (\E r \in ch.rem : r \notin gaps) \/ (\E r \in newRuns : \E q \in rows1 : q[1] = r[1])]

SqlMatch(r, qs, qe) ==
    \/ (r.s >= qs /\ r.s <= qe) \/ (r.s <= qs /\ r.e >= qe) \/ (r.s <= qe /\ r.e >= qe)
    \/ (r.e >= qs /\ r.e <= qe) \/ (r.s = qe + 1 /\ r.e # 0) \/ (r.e + 1 = qs)

NoneSeen == [v \in V |-> [kind |-> "none", seqs |-> {}]]
SeenInCall(seen, m) ==
    \A v \in MVersions(m) :
        IF m.k = "full" THEN seen[v].kind = "known" \/ (seen[v].kind = "partial" /\ MSeqs(m) \subseteq seen[v].seqs)
        ELSE seen[v].kind # "none"

(* one changeset of actor a inside the open transaction of process_multiple_changes.                 *)
(* st: [cells, rw (rows of a), merged, pendClear, ordinals, seen, processed, err]; bk: bookkeeping at *)
(* the start of the call                                                                               *)
StepChange(st, bk, a, m) ==
    IF KnownAtStart(bk, m) \/ SeenInCall(st.seen, m) THEN st
    ELSE IF MComplete(m) /\ MNoChanges(m) THEN
        LET hi == IF m.k = "empty" THEN m.hi ELSE m.v
            lo == IF m.k = "empty" THEN m.lo ELSE m.v
            hadMeta == (\E b \in st.rw.bufs : b[1] \in lo..hi) \/ (\E r \in st.rw.seqs : r.v \in lo..hi)
        IN [st EXCEPT !.rw.dbv = IF hi > bk.max \/ hadMeta THEN Max2(@, hi) ELSE @,
                      !.merged = @ \cup (lo..hi),
                      !.pendClear = IF hadMeta THEN @ \cup {<<a, x>> : x \in lo..hi} ELSE @,
                      !.seen = [v \in V |-> IF v \in lo..hi THEN [kind |-> "known", seqs |-> {}] ELSE @[v]],
                      !.processed = Append(@, [lo |-> lo, hi |-> hi, p |-> FALSE, seqs |-> {}, last |-> 0])]
    ELSE IF MComplete(m) THEN
        LET mg == MergeSeqs(st.cells, a, m.v, m.seqs)
        IN [st EXCEPT !.cells = mg.cells,
                      !.ordinals = IF mg.impact THEN @ \cup {a} ELSE @,
                      !.merged = @ \cup {m.v},
                      !.rw.dbv = Max2(@, m.v),
                      !.pendClear = IF (\E b \in st.rw.bufs : b[1] = m.v) \/ (\E r \in st.rw.seqs : r.v = m.v)
                                    THEN @ \cup {<<a, m.v>>} ELSE @,
                      !.seen = [@ EXCEPT ![m.v] = [kind |-> "known", seqs |-> {}]],
                      !.processed = Append(@, [lo |-> m.v, hi |-> m.v, p |-> FALSE, seqs |-> {}, last |-> 0])]
    ELSE
        LET del == {r \in st.rw.seqs : r.v = m.v /\ SqlMatch(r, m.lo, m.hi)}
            U == UNION {r.s..r.e : r \in del} \cup (m.lo..m.hi)
        IN IF ~Contiguous(U) THEN [st EXCEPT !.err = TRUE]
           ELSE [st EXCEPT !.rw.seqs = (@ \ del) \cup {[v |-> m.v, s |-> MinOf(U), e |-> MaxOf(U), last |-> m.last]},
                           !.rw.bufs = @ \cup {<<m.v, q>> : q \in m.seqs},
                           !.seen = [@ EXCEPT ![m.v] = [kind |-> "partial", seqs |-> U]],
                           !.processed = Append(@, [lo |-> m.v, hi |-> m.v, p |-> TRUE, seqs |-> U, last |-> m.last])]

RECURSIVE FoldChanges(_, _, _, _, _)
FoldChanges(st, bk, a, ms, i) == IF i > Len(ms) THEN st ELSE FoldChanges(StepChange(st, bk, a, ms[i]), bk, a, ms, i + 1)

RECURSIVE PostCommit(_, _, _, _)
(* after the commit: drop partial records of fully known versions, insert_partial for the processed   *)
(* partials, trigger the apply of covered ones                                                         *)
PostCommit(bk, pr, i, trig) ==
    IF i > Len(pr) THEN [bk |-> bk, trig |-> trig]
    ELSE IF ~pr[i].p
         THEN PostCommit([bk EXCEPT !.partials = {p \in @ : p.v \notin pr[i].lo..pr[i].hi}], pr, i + 1, trig)
         ELSE LET v == pr[i].lo
                  had == HasPartial(bk.partials, v)
                  got == IF had THEN [PartialOf(bk.partials, v) EXCEPT !.seqs = @ \cup pr[i].seqs]
                         ELSE [v |-> v, seqs |-> pr[i].seqs, last |-> pr[i].last]
                  bk2 == [bk EXCEPT !.max = IF had THEN @ ELSE Max2(@, v),
                                    !.partials = {p \in @ : p.v # v} \cup {got}]
              IN PostCommit(bk2, pr, i + 1, IF PvCovered(got) THEN trig \cup {v} ELSE trig)

SubSeqOf(ms, a) == SelectSeq(ms, LAMBDA m : m.a = a)

RECURSIVE DeliverActors(_, _, _)
(* process_multiple_changes: actors in ascending order inside one transaction; acc carries the node   *)
(* record being built and the failure flag (a failing insert_db aborts the whole transaction)          *)
DeliverActors(nd, ms, as) ==
    IF as = {} THEN nd
    ELSE LET a == MinOf(as)
             bk == nd.book[a]
             st0 == [cells |-> nd.cells, rw |-> nd.rows[a], merged |-> nd.merged[a], pendClear |-> nd.pendClear,
                     ordinals |-> nd.ordinals, seen |-> NoneSeen, processed |-> <<>>, err |-> FALSE]
             st == FoldChanges(st0, bk, a, SubSeqOf(ms, a), 1)
             VS == UNION {st.processed[i].lo..st.processed[i].hi : i \in 1..Len(st.processed)}
         IN IF Len(st.processed) = 0 THEN DeliverActors([nd EXCEPT !.err = @ \/ st.err], ms, as \ {a})
            ELSE LET idb == InsertDb(bk, st.rw.gaps, VS)
                     post == PostCommit(idb.bk, st.processed, 1, {})
                 IN IF idb.err THEN [nd EXCEPT !.err = TRUE, !.pendApply = @ \cup {<<0, 0>>}]   \* marker: abort
                    ELSE DeliverActors([nd EXCEPT !.cells = st.cells,
                                                  !.rows[a] = [st.rw EXCEPT !.gaps = idb.gaps],
                                                  !.book[a] = post.bk,
                                                  !.merged[a] = st.merged,
                                                  !.pendClear = st.pendClear,
                                                  !.ordinals = st.ordinals,
                                                  !.pendApply = @ \cup {<<a, v>> : v \in post.trig},
                                                  !.err = @ \/ st.err], ms, as \ {a})

DeliverF(nd, ms) ==
    LET r == DeliverActors(nd, ms, {ms[i].a : i \in 1..Len(ms)})
    IN IF <<0, 0>> \in r.pendApply THEN [nd EXCEPT !.err = TRUE] ELSE r     \* rolled back

(* process_fully_buffered_changes *)
ApplyF(nd, a, v) ==
    LET bk == nd.book[a]
        nd1 == [nd EXCEPT !.pendApply = @ \ {<<a, v>>}]
    IN IF ~HasPartial(bk.partials, v) \/ ~PvCovered(PartialOf(bk.partials, v)) THEN nd1
       ELSE LET S == {b[2] : b \in {x \in nd.rows[a].bufs : x[1] = v}}
                mg == MergeSeqs(nd.cells, a, v, S)
                idb == InsertDb(bk, nd.rows[a].gaps, {v})
            IN IF idb.err THEN [nd1 EXCEPT !.err = TRUE]
               ELSE [nd1 EXCEPT !.cells = mg.cells,
                                !.ordinals = IF mg.impact THEN @ \cup {a} ELSE @,
                                !.merged[a] = IF S # {} THEN @ \cup {v} ELSE @,
                                !.rows[a].dbv = IF S # {} THEN Max2(@, v) ELSE @,
                                !.rows[a].gaps = idb.gaps,
                                !.book[a] = idb.bk,
                                !.pendClear = @ \cup {<<a, v>>}]

(* one round of clear_buffered_meta_loop *)
ClearF(nd, a, v) ==
    [nd EXCEPT !.pendClear = @ \ {<<a, v>>},
               !.rows[a].seqs = {r \in @ : r.v # v},
               !.rows[a].bufs = {b \in @ : b[1] # v}]

(* BookedVersions::from_conn *)
Reload(rw) ==
    LET vs == {r.v : r \in rw.seqs}
    IN [max |-> IF vs = {} THEN rw.dbv ELSE Max2(rw.dbv, MaxOf(vs)),
        needed |-> Elems(rw.gaps),
        partials |-> {[v |-> v, seqs |-> UNION {r.s..r.e : r \in {q \in rw.seqs : q.v = v}},
                       last |-> (CHOOSE r \in rw.seqs : r.v = v).last] : v \in vs}]

(* process death + setup + run_root: memory and triggers are lost; bookkeeping is rebuilt for the     *)
(* actors the start-up query enumerates; covered partials are re-triggered                            *)
Enumerated(nd, self) ==
    {a \in Nodes \ {self} : \/ a \in nd.ordinals \/ nd.rows[a].seqs # {}
                            \/ (FixS12 /\ (nd.rows[a].gaps # {} \/ nd.rows[a].dbv > 0))}
RestartF(nd, self) ==
    LET en == Enumerated(nd, self)
        bk == [a \in Nodes |-> IF a = self THEN [max |-> nd.rows[self].dbv, needed |-> {}, partials |-> {}]
                               ELSE IF a \in en THEN Reload(nd.rows[a]) ELSE EmptyBook]
    IN [nd EXCEPT !.book = bk,
                  !.pendApply = {pr \in Nodes \X V : /\ pr[1] \in en /\ HasPartial(bk[pr[1]].partials, pr[2])
                                                        /\ PvCovered(PartialOf(bk[pr[1]].partials, pr[2]))},
                  !.pendClear = {},
                  !.merged = [a \in Nodes |-> {v \in nd.merged[a] : v <= bk[a].max}]]

RECURSIVE SettleF(_)
(* an autonomous node consumes its triggers by itself (apply loop, clear loop) *)
SettleF(nd) ==
    IF nd.pendApply # {} THEN LET t == CHOOSE t \in nd.pendApply : TRUE IN SettleF(ApplyF(nd, t[1], t[2]))
    ELSE IF nd.pendClear # {} THEN LET t == CHOOSE t \in nd.pendClear : TRUE IN SettleF(ClearF(nd, t[1], t[2]))
    ELSE nd

-----------------------------------------------------------------------------
(* generate_sync *)
Adv(bk) == [head |-> bk.max,
            need |-> IF bk.max = 0 THEN {} ELSE bk.needed,
            partial |-> IF bk.max = 0 THEN {} ELSE {[v |-> p.v, missing |-> Gaps(p.seqs, 0, p.last)] : p \in {q \in bk.partials : ~PvCovered(q)}}]

(* compute_available_needs for one actor (see SyncNeeds.tla): the set of needs, each either            *)
(* [k |-> "full", lo, hi] or [k |-> "partial", v, seqs]                                                 *)
PVs(ad) == {p.v : p \in ad.partial}
MissingOf(ad, v) == (CHOOSE p \in ad.partial : p.v = v).missing
Needs(ours, theirs) ==
    IF theirs.head = 0 THEN {}
    ELSE LET haves == ((1..theirs.head) \ theirs.need) \ PVs(theirs)
             fromNeed == {[k |-> "full", lo |-> MaxOf({r[1], h[1]}), hi |-> MinOf({r[2], h[2]})] :
                              r \in Runs(ours.need), h \in Runs(haves)}
             fullOk == {n \in fromNeed : n.lo <= n.hi}
             tail == IF theirs.head > ours.head THEN {[k |-> "full", lo |-> ours.head + 1, hi |-> theirs.head]} ELSE {}
             pr(v) == IF v \in haves THEN MissingOf(ours, v)
                      ELSE IF v \in PVs(theirs)
                           THEN MissingOf(ours, v) \cap ((0..Max2(MaxOf(MissingOf(theirs, v)), MaxOf(MissingOf(ours, v)))) \ MissingOf(theirs, v))
                           ELSE {}
             parts == {[k |-> "partial", v |-> v, seqs |-> pr(v)] : v \in {x \in PVs(ours) : pr(x) # {}}}
         IN fullOk \cup tail \cup parts

(* process_sync filter + handle_need: the messages server node nd sends for one need about actor a *)
ServeVersionFull(nd, a, v) ==
    LET live == LiveSeqs(nd, a, v) IN
    IF live # {} THEN {[k |-> "full", a |-> a, v |-> v, lo |-> 0, hi |-> MaxOf(live), last |-> MaxOf(live), seqs |-> live]}
    ELSE IF ~(\E b \in nd.rows[a].bufs : b[1] = v) THEN {}
    ELSE {[k |-> "full", a |-> a, v |-> v, lo |-> r.s, hi |-> r.e, last |-> r.last,
           seqs |-> {b[2] : b \in {x \in nd.rows[a].bufs : x[1] = v /\ x[2] >= r.s /\ x[2] <= r.e}}] : r \in {q \in nd.rows[a].seqs : q.v = v}}
IsEmptyAt(nd, a, v) == /\ LiveSeqs(nd, a, v) = {} /\ ~(\E b \in nd.rows[a].bufs : b[1] = v)
                       /\ v \notin Elems(nd.rows[a].gaps)
EmptyMsgs(a, vs) == {[k |-> "empty", a |-> a, lo |-> r[1], hi |-> r[2]] : r \in Runs(vs)}

ServeF(nd, a, need) ==
    LET bk == nd.book[a] IN
    IF need.k = "full" THEN
        IF \A v \in need.lo..need.hi : v \in bk.needed \/ (bk.max > 0 /\ v > bk.max) THEN {}
        ELSE UNION {ServeVersionFull(nd, a, v) : v \in need.lo..need.hi}
             \cup EmptyMsgs(a, {v \in need.lo..need.hi : IsEmptyAt(nd, a, v)})
    ELSE
        IF need.v \in bk.needed \/ (bk.max > 0 /\ need.v > bk.max) THEN {}
        ELSE LET v == need.v
                 live == LiveSeqs(nd, a, v)
             IN IF live # {}
                THEN {[k |-> "full", a |-> a, v |-> v, lo |-> r[1], hi |-> r[2], last |-> MaxOf(live), seqs |-> live \cap (r[1]..r[2])] : r \in Runs(need.seqs)}
                     \ {m \in {[k |-> "full", a |-> a, v |-> v, lo |-> r[1], hi |-> r[2], last |-> MaxOf(live), seqs |-> live \cap (r[1]..r[2])] : r \in Runs(need.seqs)} :
                            m.seqs = {} /\ m.lo = 0 /\ m.hi = m.last}
                ELSE IF ~(\E b \in nd.rows[a].bufs : b[1] = v)
                     THEN IF v \notin Elems(nd.rows[a].gaps) THEN EmptyMsgs(a, {v}) ELSE {}
                     ELSE UNION {{[k |-> "full", a |-> a, v |-> v, lo |-> Max2(q.s, r[1]), hi |-> MinOf({q.e, r[2]}), last |-> q.last,
                            seqs |-> {b[2] : b \in {x \in nd.rows[a].bufs : x[1] = v /\ x[2] >= Max2(q.s, r[1]) /\ x[2] <= MinOf({q.e, r[2]})}}] :
                              q \in {y \in nd.rows[a].seqs : y.v = v /\ ((y.s >= r[1] /\ y.s <= r[2]) \/ (y.s <= r[1] /\ y.e >= r[2])
                                                                         \/ (y.s <= r[2] /\ y.e >= r[2]) \/ (y.e >= r[1] /\ y.e <= r[2]))}} : r \in Runs(need.seqs)}

-----------------------------------------------------------------------------
Init == /\ txlog = [n \in Nodes |-> <<>>]
        /\ nodes = [n \in Nodes |-> InitNode]
        /\ msgs = {}

RECURSIVE WriteKeys(_, _, _, _, _)
(* the statements of a local transaction, in order; returns [cells, tx].  Every write of a cell bumps its   *)
(* col_version and takes the next sequence number; a later write of the same cell in the same transaction   *)
(* replaces the earlier one, whose sequence number stays unused (a hole, recorded with key 0)                 *)
WriteKeys(cells, n, v, ks, i) ==
    IF i > Len(ks) THEN [cells |-> cells, tx |-> <<>>]
    ELSE LET k == ks[i]
             cv == cells[k].cv + 1
             val == n * 1000 + v
             r == WriteKeys([cells EXCEPT ![k] = [cv |-> cv, val |-> val, site |-> n, dbv |-> v, seq |-> i - 1]], n, v, ks, i + 1)
             again == \E j \in (i + 1)..Len(ks) : ks[j] = k
         IN [cells |-> r.cells, tx |-> <<IF again THEN [key |-> 0, cv |-> 0, val |-> 0] ELSE [key |-> k, cv |-> cv, val |-> val]>> \o r.tx]

(* api_v1_transactions with statements writing the keys ks (a key may be written more than once) *)
LocalTx(n, ks) ==
    /\ Len(txlog[n]) < MaxTx
    /\ LET v == Len(txlog[n]) + 1
           w == WriteKeys(nodes[n].cells, n, v, ks, 1)
       IN /\ txlog' = [txlog EXCEPT ![n] = Append(@, w.tx)]
          /\ nodes' = [nodes EXCEPT ![n].cells = w.cells,
                                    ![n].rows[n].dbv = v,
                                    ![n].book[n].max = v]
          /\ msgs' = msgs \cup {[k |-> "full", a |-> n, v |-> v, lo |-> 0, hi |-> Len(ks) - 1, last |-> Len(ks) - 1,
                                  seqs |-> {i - 1 : i \in {j \in 1..Len(ks) : w.tx[j].key # 0}}]}

(* a request that fails at some statement, or changes nothing: no effect whatsoever (C07) *)
LocalNoEffect(n) == UNCHANGED vars

(* the network (or a relay's chunker) may hand over any contiguous part of a changeset that carries at  *)
(* least one change: ChunkedChanges only closes a chunk after pushing a change, so no honest peer        *)
(* produces a sub-range chunk without changes                                                             *)
Cut(m, lo, hi) ==
    /\ m \in msgs /\ m.k = "full" /\ m.lo <= lo /\ lo <= hi /\ hi <= m.hi /\ <<lo, hi>> # <<m.lo, m.hi>>
    /\ m.seqs \cap (lo..hi) # {}
    /\ msgs' = msgs \cup {[m EXCEPT !.lo = lo, !.hi = hi, !.seqs = @ \cap (lo..hi)]}
    /\ UNCHANGED <<txlog, nodes>>

(* a chunk that covers only part of a version and carries no change at all is only ever produced as the    *)
(* answer to a partial need, i.e. for a node that already buffered another part of that version            *)
HoleOnly(m) == m.k = "full" /\ m.seqs = {} /\ ~MComplete(m)
Deliver(n, ms) ==
    /\ \A i \in 1..Len(ms) : ms[i] \in msgs /\ ms[i].a # n
    /\ \A i \in 1..Len(ms) : HoleOnly(ms[i]) => \E b \in nodes[n].rows[ms[i].a].bufs : b[1] = ms[i].v
    /\ nodes' = [nodes EXCEPT ![n] = DeliverF(@, ms)]
    /\ UNCHANGED <<txlog, msgs>>

ApplyBuffered(n, a, v) ==
    /\ <<a, v>> \in nodes[n].pendApply
    /\ nodes' = [nodes EXCEPT ![n] = ApplyF(@, a, v)]
    /\ UNCHANGED <<txlog, msgs>>

ClearMeta(n, a, v) ==
    /\ <<a, v>> \in nodes[n].pendClear
    /\ nodes' = [nodes EXCEPT ![n] = ClearF(@, a, v)]
    /\ UNCHANGED <<txlog, msgs>>

(* node s answers one need that client c computed from the two advertised states *)
SyncServe(s, c, a, need) ==
    /\ s # c /\ a # c
    /\ need \in Needs(Adv(nodes[c].book[a]), Adv(nodes[s].book[a]))
    /\ msgs' = msgs \cup ServeF(nodes[s], a, need)
    /\ UNCHANGED <<txlog, nodes>>

Restart(n) ==
    /\ nodes' = [nodes EXCEPT ![n] = RestartF(@, n)]
    /\ UNCHANGED <<txlog, msgs>>

KeySeqs == UNION {[1..l -> Keys] : l \in 1..MaxKeysPerTx}
Batches == UNION {[1..l -> msgs] : l \in 1..MaxBatch}
AllNeeds(c, s, a) == Needs(Adv(nodes[c].book[a]), Adv(nodes[s].book[a]))

NeedUniverse == [k : {"full"}, lo : V, hi : V] \cup [k : {"partial"}, v : V, seqs : (SUBSET (0..(MaxKeysPerTx - 1))) \ {{}}]
Next == \/ \E n \in Nodes, ks \in KeySeqs : LocalTx(n, ks)
        \/ \E m \in msgs, lo \in 0..MaxKeysPerTx, hi \in 0..MaxKeysPerTx : Cut(m, lo, hi)
        \/ \E n \in Nodes, ms \in Batches : Deliver(n, ms)
        \/ \E n \in Nodes, a \in Nodes, v \in V : ApplyBuffered(n, a, v)
        \/ \E n \in Nodes, a \in Nodes, v \in V : ClearMeta(n, a, v)
        \/ \E s \in Nodes, c \in Nodes, a \in Nodes, need \in NeedUniverse : SyncServe(s, c, a, need)
        \/ \E n \in Nodes : Restart(n)
Spec == Init /\ [][Next]_vars

-----------------------------------------------------------------------------
(* Properties *)
AllChanges == {<<a, v, s>> : a \in Nodes, v \in V, s \in 0..(MaxKeysPerTx - 1)}
Exists(c) == c[2] <= Len(txlog[c[1]]) /\ c[3] \in SeqsOf(c[1], c[2])
(* a change that no acknowledged change dominates on its cell *)
Winner(a, v, s) == \A b \in Nodes : \A w \in 1..Len(txlog[b]) : \A t \in SeqsOf(b, w) :
    Change(b, w, t).key = Change(a, v, s).key =>
        ~Wins(Change(b, w, t), [cv |-> Change(a, v, s).cv, val |-> Change(a, v, s).val]) \/ <<b, w, t>> = <<a, v, s>>
RowSeqs(rw, v) == UNION {r.s..r.e : r \in {q \in rw.seqs : q.v = v}}
RowLast(rw, v) == (CHOOSE r \in rw.seqs : r.v = v).last
FullyBuffered(rw) == {v \in {r.v : r \in rw.seqs} : Gaps(RowSeqs(rw, v), 0, RowLast(rw, v)) = {}}
AdvHeld(bk) == ((1..bk.max) \ Adv(bk).need) \ {p.v : p \in Adv(bk).partial}

(* C01: a node shows only values some acknowledged transaction produced, with that transaction's CRDT version *)
C01_NoInvention == \A n \in Nodes, k \in Keys :
    LET c == nodes[n].cells[k] IN c.cv # 0 =>
        /\ c.dbv <= Len(txlog[c.site]) /\ c.seq \in SeqsOf(c.site, c.dbv)
        /\ Change(c.site, c.dbv, c.seq) = [key |-> k, cv |-> c.cv, val |-> c.val, site |-> c.site, dbv |-> c.dbv, seq |-> c.seq]
(* C01 (safety core of convergence): a node that claims to hold a version has every change of it that has not lost globally *)
C01_NoLoss == \A n \in Nodes : \A a \in Nodes \ {n} : \A v \in V :
    (v <= Len(txlog[a]) /\ v \in AdvHeld(nodes[n].book[a]) /\ v \notin FullyBuffered(nodes[n].rows[a]) /\ <<a, v>> \notin nodes[n].pendApply)
        => \A s \in SeqsOf(a, v) : Winner(a, v, s) =>
              LET ch == Change(a, v, s) IN nodes[n].cells[ch.key] = [cv |-> ch.cv, val |-> ch.val, site |-> a, dbv |-> v, seq |-> s]
(* C01: when nobody needs anything from anybody, all nodes hold the merge of all acknowledged transactions *)
Quiescent == /\ \A c, s \in Nodes, a \in Nodes : (c # s /\ a # c) => AllNeeds(c, s, a) = {}
             /\ \A n \in Nodes : nodes[n].pendApply = {}
             /\ \A n, a \in Nodes : Len(txlog[a]) > 0 => nodes[n].book[a].max = Len(txlog[a])
C01_Converged == Quiescent => \A n, m \in Nodes : nodes[n].cells = nodes[m].cells
C01_MergeOfAll == Quiescent => \A n \in Nodes, a \in Nodes, v \in V : v <= Len(txlog[a]) =>
                     \A s \in SeqsOf(a, v) : Winner(a, v, s) => nodes[n].cells[Change(a, v, s).key].val = Change(a, v, s).val

(* C02 in context *)
C02_HeldIsDurable == \A n, a \in Nodes : a # n => AdvHeld(nodes[n].book[a]) \subseteq (nodes[n].merged[a] \cup FullyBuffered(nodes[n].rows[a]))
C02_RowsMatch == \A n, a \in Nodes : a # n => nodes[n].rows[a].gaps = Runs(nodes[n].book[a].needed)
(* the in-memory partial record lists exactly the sequences the seq rows cover (also right after a restart) *)
C02_PartialRowsMatch == \A n, a \in Nodes : a # n => \A p \in nodes[n].book[a].partials :
    (\E r \in nodes[n].rows[a].seqs : r.v = p.v) => RowSeqs(nodes[n].rows[a], p.v) = p.seqs
NoErr == \A n \in Nodes : ~nodes[n].err

(* C03: nothing of a remote version is visible before the step that applies it as a whole *)
C03_Atomic == \A n \in Nodes : \A a \in Nodes \ {n} : \A v \in V : v \notin nodes[n].merged[a] => Live(nodes[n], a, v) = {}
(* C03: a covered partial is either applied or on its way (trigger pending) *)
C03_CoveredIsPending == \A n \in Nodes : \A a \in Nodes \ {n} : \A p \in nodes[n].book[a].partials :
    (PvCovered(p) /\ p.v \notin nodes[n].merged[a]) => <<a, p.v>> \in nodes[n].pendApply
(* C03: buffered copies only exist for versions with a partial record or a pending clear *)
C03_BufferedHaveRecord == \A n \in Nodes : \A a \in Nodes \ {n} : \A b \in nodes[n].rows[a].bufs :
    (\E r \in nodes[n].rows[a].seqs : r.v = b[1] /\ b[2] >= r.s /\ b[2] <= r.e)

(* C05: what a server sends for any need a peer may send for versions up to the advertised head *)
ProbeNeeds(s, a) == {n \in NeedUniverse : IF n.k = "full" THEN n.lo <= n.hi /\ n.hi <= Adv(nodes[s].book[a]).head
                                                           ELSE n.v <= Adv(nodes[s].book[a]).head}
C05_Serve == \A s, a \in Nodes : \A need \in ProbeNeeds(s, a) :
    LET out == ServeF(nodes[s], a, need) bk == nodes[s].book[a] IN
    /\ \A m \in out : m.k = "empty" => \A v \in m.lo..m.hi :
            /\ v <= bk.max /\ v \notin bk.needed                                     \* held, not needed,
            /\ (HasPartial(bk.partials, v) => PvCovered(PartialOf(bk.partials, v)))   \* not partially received
            /\ LiveSeqs(nodes[s], a, v) = {}
            /\ (a = s \/ v \in nodes[s].merged[a])
    /\ \A m \in out : m.k = "full" => (m.seqs \subseteq m.lo..m.hi /\ m.lo <= m.hi)
    \* a version that is only buffered is answered with exactly the buffered ranges
    /\ \A m \in out : (m.k = "full" /\ LiveSeqs(nodes[s], a, m.v) = {}) =>
            /\ (m.lo..m.hi) \subseteq RowSeqs(nodes[s].rows[a], m.v)
            /\ m.seqs = {b[2] : b \in {x \in nodes[s].rows[a].bufs : x[1] = m.v /\ x[2] \in m.lo..m.hi}}
    /\ \A m \in out : m.k = "full" => /\ m.v <= bk.max /\ m.v \notin bk.needed
                                      /\ \A q \in m.seqs : Exists(<<a, m.v, q>>)
    \* a fully held live version is answered with changesets that tile 0..=last and carry exactly its live changes
    /\ need.k = "full" => \A v \in need.lo..need.hi :
          (v <= bk.max /\ v \notin bk.needed /\ LiveSeqs(nodes[s], a, v) # {}) =>
              \E m \in out : m.k = "full" /\ m.v = v /\ m.lo = 0 /\ m.hi = m.last /\ m.seqs = LiveSeqs(nodes[s], a, v)

(* C06/C07: acknowledged local transactions are present and never listed as gaps *)
C07_OwnHead == \A n \in Nodes : /\ nodes[n].book[n].max = Len(txlog[n]) /\ nodes[n].book[n].needed = {}
                                /\ nodes[n].rows[n].dbv = Len(txlog[n])
C06_AckedPresent == \A n \in Nodes, v \in V : v <= Len(txlog[n]) => \A s \in SeqsOf(n, v) :
    LET ch == Change(n, v, s) c == nodes[n].cells[ch.key] IN
        c = [cv |-> ch.cv, val |-> ch.val, site |-> n, dbv |-> v, seq |-> s] \/ Wins([cv |-> c.cv, val |-> c.val], [cv |-> ch.cv, val |-> ch.val])
=============================================================================
