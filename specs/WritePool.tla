----------------------------- MODULE WritePool -----------------------------
(* SplitPool's single writer (crates/klukai-types/src/agent.rs): three bounded channels (priority,      *)
(* normal, low) feed one dispatcher task that hands a DropGuard to one requester at a time and waits     *)
(* until the guard is dropped; the requester then takes the only pooled write connection and the write   *)
(* permit.  A WriteConn drops its fields in order: connection, guard, permit.  A requester may be          *)
(* cancelled (its future dropped) at any await point.                                                      *)
EXTENDS Naturals, FiniteSets, Sequences, TLC

CONSTANTS Reqs, ClassOf      \* ClassOf[r] \in 0..2, 0 = priority (client), 1 = normal (sync), 2 = low (background)

VARIABLES stage,     \* [Reqs -> "idle" | "sending" | "queued" | "guard" | "conn" | "holding" | "rel_conn" | "rel_guard" | "done" | "gone"]
          chan,      \* [0..2 -> Seq(Reqs)]: requests whose oneshot sender sits in the channel
          disp,      \* 0 (idle) or the request whose guard the dispatcher waits on
          connFree, permitFree,
          picks      \* ghost: history of <<request, waiting set at the time of the pick>>
vars == <<stage, chan, disp, connFree, permitFree, picks>>

Init == /\ stage = [r \in Reqs |-> "idle"] /\ chan = [c \in 0..2 |-> <<>>] /\ disp = 0
        /\ connFree = TRUE /\ permitFree = TRUE /\ picks = <<>>

(* write_inner: chan.send(tx) *)
Enqueue(r) == /\ stage[r] = "idle"
              /\ stage' = [stage EXCEPT ![r] = "queued"]
              /\ chan' = [chan EXCEPT ![ClassOf[r]] = Append(@, r)]
              /\ UNCHANGED <<disp, connFree, permitFree, picks>>

(* dispatcher: biased select over the three channels, then send the guard back *)
FirstClass == CHOOSE c \in 0..2 : chan[c] # <<>> /\ \A d \in 0..2 : d < c => chan[d] = <<>>
Pick == /\ disp = 0 /\ \E c \in 0..2 : chan[c] # <<>>
        /\ LET c == FirstClass r == Head(chan[c]) IN
           /\ chan' = [chan EXCEPT ![c] = Tail(@)]
           /\ picks' = Append(picks, <<r, {q \in Reqs : stage[q] = "queued" /\ q # r}>>)
           /\ IF stage[r] = "gone"            \* requester went away: oneshot closed, "could not send back drop guard"
              THEN UNCHANGED <<stage, disp>>
              ELSE stage' = [stage EXCEPT ![r] = "guard"] /\ disp' = r
        /\ UNCHANGED <<connFree, permitFree>>

TakeConn(r) == /\ stage[r] = "guard" /\ connFree
               /\ stage' = [stage EXCEPT ![r] = "conn"] /\ connFree' = FALSE
               /\ UNCHANGED <<chan, disp, permitFree, picks>>
TakePermit(r) == /\ stage[r] = "conn" /\ permitFree
                 /\ stage' = [stage EXCEPT ![r] = "holding"] /\ permitFree' = FALSE
                 /\ UNCHANGED <<chan, disp, connFree, picks>>
(* drop(WriteConn): connection back to the pool, then the guard, then the permit *)
Release1(r) == /\ stage[r] = "holding" /\ stage' = [stage EXCEPT ![r] = "rel_conn"] /\ connFree' = TRUE
               /\ UNCHANGED <<chan, disp, permitFree, picks>>
Release2(r) == /\ stage[r] = "rel_conn" /\ stage' = [stage EXCEPT ![r] = "rel_guard"] /\ disp' = 0
               /\ UNCHANGED <<chan, connFree, permitFree, picks>>
Release3(r) == /\ stage[r] = "rel_guard" /\ stage' = [stage EXCEPT ![r] = "done"] /\ permitFree' = TRUE
               /\ UNCHANGED <<chan, disp, connFree, picks>>
(* the requester's future is dropped while waiting *)
Cancel(r) ==
    \/ /\ stage[r] = "queued" /\ stage' = [stage EXCEPT ![r] = "gone"]
       /\ UNCHANGED <<chan, disp, connFree, permitFree, picks>>
    \/ /\ stage[r] = "guard" /\ stage' = [stage EXCEPT ![r] = "gone"] /\ disp' = 0
       /\ UNCHANGED <<chan, connFree, permitFree, picks>>
    \/ /\ stage[r] = "conn" /\ stage' = [stage EXCEPT ![r] = "gone"] /\ disp' = 0 /\ connFree' = TRUE
       /\ UNCHANGED <<chan, permitFree, picks>>

Next == \E r \in Reqs : Enqueue(r) \/ TakeConn(r) \/ TakePermit(r) \/ Release1(r) \/ Release2(r) \/ Release3(r) \/ Cancel(r)
        \/ Pick
Spec == Init /\ [][Next]_vars
Fair == /\ WF_vars(Pick)
        /\ \A r \in Reqs : WF_vars(TakeConn(r)) /\ WF_vars(TakePermit(r)) /\ WF_vars(Release1(r)) /\ WF_vars(Release2(r)) /\ WF_vars(Release3(r))
FairSpec == Spec /\ Fair

-----------------------------------------------------------------------------
(* C20 *)
C20_Exclusive == Cardinality({r \in Reqs : stage[r] \in {"conn", "holding"}}) <= 1
C20_OneGuard == Cardinality({r \in Reqs : stage[r] \in {"guard", "conn", "holding", "rel_conn"}}) <= 1
                /\ (disp # 0 => stage[disp] \in {"guard", "conn", "holding", "rel_conn"})
(* at every hand-off no request of a more urgent class was waiting *)
C20_Priority == \A i \in 1..Len(picks) : \A q \in picks[i][2] : ClassOf[q] >= ClassOf[picks[i][1]]
(* every request that is not cancelled gets the connection; a cancelled one never blocks the dispatcher *)
C20_Live == \A r \in Reqs : (stage[r] = "queued") ~> (stage[r] \in {"holding", "gone"})
C20_NoLeak == []<>(disp = 0 \/ \E r \in Reqs : stage[r] \in {"guard", "conn", "holding", "rel_conn"})
=============================================================================
