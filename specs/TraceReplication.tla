------------------------- MODULE TraceReplication -------------------------
(* Trace specification: a walk recorded from N real agents (harness/src/sim.rs) is accepted iff it is  *)
(* a behaviour of Replication.tla; every event names the action, carries its arguments and the          *)
(* projected state of the node it touched, so validation is linear.  The property invariants of         *)
(* Replication.tla are evaluated on every state of the accepted prefix.                                  *)
EXTENDS Replication, Json, IOUtils

Rec == ndJsonDeserialize(IOEnv.TRACE)

VARIABLES l,     \* next event to consume
          net    \* message id -> message (as the specification represents it)
tvars == <<txlog, nodes, msgs, l, net>>

RunsToSet(rs) == UNION {rs[i][1]..rs[i][2] : i \in 1..Len(rs)}
SeqToSet(s) == {s[i] : i \in 1..Len(s)}

ToMsg(j) == IF j.k = "empty" THEN [k |-> "empty", a |-> j.a, lo |-> j.lo, hi |-> j.hi]
            ELSE [k |-> "full", a |-> j.a, v |-> j.v, lo |-> j.lo, hi |-> j.hi, last |-> j.last,
                  seqs |-> {j.chs[i].seq : i \in 1..Len(j.chs)}]
(* the payload of a message is exactly the recorded changes of that version *)
PayloadOk(j) == IF j.k = "empty" THEN TRUE ELSE \A i \in 1..Len(j.chs) :
    LET c == j.chs[i] IN
    /\ j.v <= Len(txlog'[j.a]) /\ c.seq <= Len(txlog'[j.a][j.v]) - 1 /\ txlog'[j.a][j.v][c.seq + 1].key # 0
    /\ LET t == txlog'[j.a][j.v][c.seq + 1] IN t.key = c.key /\ t.cv = c.cv /\ t.val = c.val
    /\ c.cid = "text" /\ c.cl = 1 /\ c.site = j.a /\ c.dbv = j.v
CreatedSet(ev) == {ToMsg(ev.created[i]) : i \in 1..Len(ev.created)}
NetPlus(ev) == [id \in DOMAIN net \cup {ev.created[i].id : i \in 1..Len(ev.created)} |->
                  IF id \in DOMAIN net THEN net[id] ELSE ToMsg(CHOOSE c \in SeqToSet(ev.created) : c.id = id)]

(* projected node state == specification node record *)
BookMatches(nd, b) ==
    LET a == b.a IN
    /\ nd.book[a].max = b.max
    /\ nd.book[a].needed = RunsToSet(b.needed)
    /\ nd.book[a].partials = {[v |-> b.partials[i].v, seqs |-> RunsToSet(b.partials[i].seqs), last |-> b.partials[i].last] : i \in 1..Len(b.partials)}
    /\ nd.rows[a].gaps = {<<b.gapRows[i][1], b.gapRows[i][2]>> : i \in 1..Len(b.gapRows)}
    /\ nd.rows[a].seqs = {[v |-> b.seqRows[i][1], s |-> b.seqRows[i][2], e |-> b.seqRows[i][3], last |-> b.seqRows[i][4]] : i \in 1..Len(b.seqRows)}
    /\ nd.rows[a].bufs = {<<b.bufRows[i][1], b.bufRows[i][2]>> : i \in 1..Len(b.bufRows)}
    /\ nd.rows[a].dbv = b.dbv
NodeMatches(nd, self, post) ==
    /\ {[key |-> post.cells[i].key, cv |-> post.cells[i].cv, val |-> post.cells[i].val, site |-> post.cells[i].site,
         dbv |-> post.cells[i].dbv, seq |-> post.cells[i].seq] : i \in 1..Len(post.cells)}
       = {[key |-> k, cv |-> nd.cells[k].cv, val |-> nd.cells[k].val, site |-> nd.cells[k].site, dbv |-> nd.cells[k].dbv, seq |-> nd.cells[k].seq] :
            k \in {x \in Keys : nd.cells[x].cv # 0}}
    /\ \A i \in 1..Len(post.cells) : post.cells[i].cl = 1 /\ post.cells[i].cid = "text" /\ post.cells[i].t = "tests"
    \* the table itself shows exactly the winning values
    /\ {<<post.rows[i][1], post.rows[i][2]>> : i \in 1..Len(post.rows)} = {<<k, nd.cells[k].val>> : k \in {x \in Keys : nd.cells[x].cv # 0}}
    /\ \A i \in 1..Len(post.book) : BookMatches(nd, post.book[i])
    /\ post.own.max = nd.book[self].max /\ post.own.dbv = nd.rows[self].dbv /\ Len(post.own.needed) = 0
    /\ (~post.auto => /\ {<<post.pendApply[i][1], post.pendApply[i][2]>> : i \in 1..Len(post.pendApply)} = nd.pendApply
                      /\ {<<post.pendClear[i][1], post.pendClear[i][2]>> : i \in 1..Len(post.pendClear)} = nd.pendClear)
    /\ ~nd.err

Ev == Rec[l]
IsEvent(name) == l <= Len(Rec) /\ Rec[l].op.op = name /\ l' = l + 1
After(n) == IF Ev.post.auto THEN SettleF(nodes'[n]) ELSE nodes'[n]

TraceInit == Init /\ l = 2 /\ net = <<>>

TrTxOk == /\ IsEvent("tx") /\ Ev.op.fail = "" /\ Ev.ok
          /\ LocalTx(Ev.n, Ev.op.keys)
          /\ Ev.version = Len(txlog'[Ev.n])                       \* C07: exactly one greater
          /\ CreatedSet(Ev) = msgs' \ msgs                        \* C07: announced as changesets tiling 0..=last_seq
          /\ \A i \in 1..Len(Ev.created) : PayloadOk(Ev.created[i])
          /\ net' = NetPlus(Ev)
          /\ NodeMatches(nodes'[Ev.n], Ev.n, Ev.post)
TrTxNoEffect == /\ IsEvent("tx") /\ Ev.op.fail # ""
                /\ LocalNoEffect(Ev.n)
                /\ Ev.version = 0 /\ Len(Ev.created) = 0          \* C07: no version consumed, nothing announced
                /\ Ev.ok = (Ev.op.fail = "noop")
                /\ NodeMatches(nodes[Ev.n], Ev.n, Ev.post)        \* C07: no effect at all
                /\ UNCHANGED net
TrCut == /\ IsEvent("cut")
         /\ Cut(net[Ev.op.m], Ev.op.lo, Ev.op.hi)
         /\ CreatedSet(Ev) \subseteq msgs' /\ Len(Ev.created) = 1
         /\ net' = NetPlus(Ev)
TrDeliver == /\ IsEvent("deliver")
             /\ Ev.err = ""
             /\ LET ms == [i \in 1..Len(Ev.op.batch) |-> net[Ev.op.batch[i]]] IN
                /\ \A i \in 1..Len(ms) : ms[i] \in msgs /\ ms[i].a # Ev.n
                /\ \A i \in 1..Len(ms) : HoleOnly(ms[i]) => \E b \in nodes[Ev.n].rows[ms[i].a].bufs : b[1] = ms[i].v
                /\ nodes' = [nodes EXCEPT ![Ev.n] = IF Ev.post.auto THEN SettleF(DeliverF(@, ms)) ELSE DeliverF(@, ms)]
             /\ NodeMatches(nodes'[Ev.n], Ev.n, Ev.post)
             /\ UNCHANGED <<txlog, msgs, net>>
TrApply == /\ IsEvent("apply") /\ Ev.err = ""
           /\ ApplyBuffered(Ev.n, Ev.op.a, Ev.op.v)
           /\ NodeMatches(nodes'[Ev.n], Ev.n, Ev.post)
           /\ UNCHANGED net
TrClear == /\ IsEvent("clear") /\ Ev.err = ""
           /\ ClearMeta(Ev.n, Ev.op.a, Ev.op.v)
           /\ NodeMatches(nodes'[Ev.n], Ev.n, Ev.post)
           /\ UNCHANGED net
NeedOf(j) == IF j.k = "full" THEN [k |-> "full", lo |-> j.lo, hi |-> j.hi] ELSE [k |-> "partial", v |-> j.v, seqs |-> RunsToSet(j.seqs)]
TrServe == /\ IsEvent("serve")
           /\ LET need == NeedOf(Ev.op.need) a == Ev.op.need.a s == Ev.n c == Ev.op.c IN
              /\ (Ev.op.probe \/ need \in AllNeeds(c, s, a))                  \* C04 in context (probes: any need within the head)
              /\ (Ev.op.probe => need \in ProbeNeeds(s, a))
              /\ CreatedSet(Ev) = ServeF(nodes[s], a, need)                      \* C05: exactly what the server may send
              /\ msgs' = msgs \cup ServeF(nodes[s], a, need)
           /\ UNCHANGED <<txlog, nodes>>
           /\ \A i \in 1..Len(Ev.created) : PayloadOk(Ev.created[i])
           /\ net' = NetPlus(Ev)
           /\ NodeMatches(nodes[Ev.n], Ev.n, Ev.post)
(* read-only probe: any need within the server's advertised head; nothing enters the network (C05) *)
TrProbe == /\ IsEvent("probe")
           /\ LET need == NeedOf(Ev.op.need) a == Ev.op.need.a s == Ev.n IN
              /\ need \in ProbeNeeds(s, a)
              /\ CreatedSet(Ev) = ServeF(nodes[s], a, need)
           /\ UNCHANGED <<txlog, nodes, msgs, net>>
           /\ \A i \in 1..Len(Ev.created) : PayloadOk(Ev.created[i])
TrRestart == /\ IsEvent("restart")
             /\ nodes' = [nodes EXCEPT ![Ev.n] = SettleF(RestartF(@, Ev.n))]
             /\ NodeMatches(nodes'[Ev.n], Ev.n, Ev.post)
             /\ UNCHANGED <<txlog, msgs, net>>
TrFinal == /\ IsEvent("final")
           /\ \A n \in Nodes : NodeMatches(nodes[n], n, Ev.finals[n])
           /\ (Ev.quiescent => Quiescent)
           /\ UNCHANGED <<txlog, nodes, msgs, net>>

TraceNext == TrTxOk \/ TrTxNoEffect \/ TrCut \/ TrDeliver \/ TrApply \/ TrClear \/ TrServe \/ TrProbe \/ TrRestart \/ TrFinal
TraceSpec == TraceInit /\ [][TraceNext]_tvars

TraceAccepted ==
    LET d == TLCGet("stats").diameter IN
    IF d = Len(Rec) THEN TRUE
    ELSE /\ PrintT(<<"TRACE-REJECTED", "first unmatched event", d + 1>>)
         /\ FALSE
=============================================================================
