---------------------------- MODULE MCSyncClient ----------------------------
(* bounded instance: two or three peers, needs drawn from a family of intervals over 4 units, queues of pairwise    *)
(* disjoint needs (what compute_available_needs yields for one peer) of length <= MaxLen                            *)
EXTENDS SyncClient
CONSTANTS MaxLen
S == {"a", "b"}
S3 == {"a", "b", "c"}
Family == {{1}, {2}, {3}, {4}, {1, 2}, {2, 3}, {3, 4}, {1, 2, 3}}
Disjoint(sq) == \A i, j \in 1..Len(sq) : i # j => sq[i] \cap sq[j] = {}
Seqs == UNION {[1..n -> Family] : n \in 1..MaxLen}
QSeqs == {sq \in Seqs : Disjoint(sq)}
Q2 == [S -> QSeqs]
Q3 == [S3 -> {sq \in QSeqs : Len(sq) <= 2}]
=============================================================================
