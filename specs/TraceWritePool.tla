--------------------------- MODULE TraceWritePool ---------------------------
(* The write-pool events recorded from a real stress run (hooks wp_* in SplitPool::write_inner, the dispatcher     *)
(* task and the drop of a WriteConn) must be a behaviour of the single-writer protocol of WritePool.tla.            *)
(* The events of different tasks are emitted after the step they report and are ordered by one global counter, so   *)
(* a step may have happened earlier than its event says.  The trace specification therefore binds what an event     *)
(* proves and leaves open what it does not:                                                                          *)
(*  - enq_start / enq_end bracket the send into the class channel;                                                   *)
(*  - pick (dispatcher, right after the biased select returned a request of that class): the request is not named,   *)
(*    TLC chooses one of that class that has started sending and was not picked yet; a request of a more urgent      *)
(*    class that was provably in its channel when the dispatcher went idle (enq_end before the last idle event)       *)
(*    must not be waiting;                                                                                            *)
(*  - guard(r): the request the dispatcher waits on is r;  conn / hold: the single connection and the single permit;  *)
(*  - end(r, stage): the request's future or its WriteConn is dropped at that stage;  idle: the guard is gone.        *)
EXTENDS Naturals, Sequences, FiniteSets, TLC, Json, IOUtils

Rec == ndJsonDeserialize(IOEnv.TRACE)

VARIABLES l,
          stage,      \* [active requests -> "sending" | "queued" | "guard" | "conn" | "holding"]
          class,      \* [active requests -> 0..2]
          picked,     \* active requests the dispatcher has taken out of their channel
          disp,       \* 0, or the request the dispatcher waits on (picked, guard not yet known to be dropped)
          connFree, permitFree,
          sure,       \* requests that were provably in their channel when the dispatcher last went idle
          dead        \* [0..2 -> Nat]: senders of requests that went away while waiting and are still in their channel
vars == <<l, stage, class, picked, disp, connFree, permitFree, sure, dead>>

Ev == Rec[l]
IsEvent(name) == l <= Len(Rec) /\ Rec[l].ev = name /\ l' = l + 1
ClassNo(c) == IF c = "priority" THEN 0 ELSE IF c = "normal" THEN 1 ELSE 2
Active == DOMAIN stage
Without(f, r) == [x \in DOMAIN f \ {r} |-> f[x]]
With(f, r, v) == [x \in DOMAIN f \cup {r} |-> IF x = r THEN v ELSE f[x]]

Init == /\ l = 1 /\ stage = <<>> /\ class = <<>> /\ picked = {} /\ disp = 0
        /\ connFree = TRUE /\ permitFree = TRUE /\ sure = {} /\ dead = [c \in 0..2 |-> 0]

EnqStart == /\ IsEvent("wp_enq_start") /\ Ev.req \notin Active
            /\ stage' = With(stage, Ev.req, "sending") /\ class' = With(class, Ev.req, ClassNo(Ev.class))
            /\ UNCHANGED <<picked, disp, connFree, permitFree, sure, dead>>
EnqEnd == /\ IsEvent("wp_enq_end") /\ Ev.req \in Active
          /\ stage' = IF stage[Ev.req] = "sending" THEN [stage EXCEPT ![Ev.req] = "queued"] ELSE stage
          /\ UNCHANGED <<class, picked, disp, connFree, permitFree, sure, dead>>
Pick == /\ IsEvent("wp_pick") /\ disp = 0
        /\ LET c == ClassNo(Ev.class) IN
           /\ \A q \in sure : q \in Active /\ q \notin picked => class[q] >= c        \* C20: priority at the hand-off
           /\ \E r \in Active : /\ class[r] = c /\ r \notin picked /\ stage[r] \in {"sending", "queued"}
                                /\ picked' = picked \cup {r} /\ disp' = r
        /\ UNCHANGED <<stage, class, connFree, permitFree, sure, dead>>
(* the picked request had been dropped already (its oneshot is closed): the dispatcher goes on at once *)
PickGone == /\ IsEvent("wp_pick") /\ disp = 0 /\ dead[ClassNo(Ev.class)] > 0
            /\ dead' = [dead EXCEPT ![ClassNo(Ev.class)] = @ - 1]
            /\ disp' = 999999 /\ UNCHANGED <<stage, class, picked, connFree, permitFree, sure>>
Guard == /\ IsEvent("wp_guard") /\ disp = Ev.req /\ Ev.req \in Active /\ stage[Ev.req] \in {"sending", "queued"}
         /\ stage' = [stage EXCEPT ![Ev.req] = "guard"]
         /\ UNCHANGED <<class, picked, disp, connFree, permitFree, sure, dead>>
Conn == /\ IsEvent("wp_conn") /\ Ev.req \in Active /\ stage[Ev.req] = "guard"       \* (C20_Exclusive is checked as an invariant on the resulting state)
        /\ stage' = [stage EXCEPT ![Ev.req] = "conn"] /\ connFree' = FALSE
        /\ UNCHANGED <<class, picked, disp, permitFree, sure, dead>>
Hold == /\ IsEvent("wp_hold") /\ Ev.req \in Active /\ stage[Ev.req] = "conn"
        /\ stage' = [stage EXCEPT ![Ev.req] = "holding"] /\ permitFree' = FALSE
        /\ UNCHANGED <<class, picked, disp, connFree, sure, dead>>
End == /\ IsEvent("wp_end") /\ Ev.req \in Active
       /\ LET r == Ev.req s == stage[r] IN
          /\ Ev.stage = (IF s = "sending" THEN "queued" ELSE s)          \* the stage the code reports is the specification's
          /\ connFree' = (IF s \in {"conn", "holding"} THEN TRUE ELSE connFree)
          /\ permitFree' = (IF s = "holding" THEN TRUE ELSE permitFree)
          /\ stage' = Without(stage, r) /\ class' = Without(class, r) /\ picked' = picked \ {r}
          /\ dead' = IF s \in {"sending", "queued"} /\ r \notin picked THEN [dead EXCEPT ![class[r]] = @ + 1] ELSE dead
       /\ UNCHANGED <<disp, sure>>
Idle == /\ IsEvent("wp_idle") /\ disp # 0
        /\ (disp \in Active => stage[disp] \in {"sending", "queued"})      \* a guard that was handed out is dropped only after wp_end
        /\ disp' = 0
        /\ sure' = {q \in Active : stage[q] = "queued" /\ q \notin picked /\ q # disp}
        /\ UNCHANGED <<stage, class, picked, connFree, permitFree, dead>>
Other == /\ l <= Len(Rec) /\ Rec[l].ev \notin {"wp_enq_start", "wp_enq_end", "wp_pick", "wp_guard", "wp_conn", "wp_hold", "wp_end", "wp_idle"}
         /\ l' = l + 1 /\ UNCHANGED <<stage, class, picked, disp, connFree, permitFree, sure, dead>>

Next == EnqStart \/ EnqEnd \/ Pick \/ PickGone \/ Guard \/ Conn \/ Hold \/ End \/ Idle \/ Other
TraceSpec == Init /\ [][Next]_vars

C20_Exclusive == Cardinality({r \in Active : stage[r] \in {"conn", "holding"}}) <= 1
C20_OneGuard == Cardinality({r \in Active : stage[r] \in {"guard", "conn", "holding"}}) <= 1
(* (invariants are evaluated on every explored state, also on branches where TLC guessed the wrong request for a pick: *)
(*  they must only state what holds on every such branch)                                                            *)

TraceAccepted ==
    LET d == TLCGet("stats").diameter IN
    IF d - 1 = Len(Rec) THEN TRUE ELSE PrintT(<<"TRACE-REJECTED", "first unmatched event", d>>) /\ FALSE
=============================================================================
