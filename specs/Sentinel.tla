------------------------------ MODULE Sentinel ------------------------------
(* Delete / re-insert histories of ONE row (outside the upsert-only Replication specification).                      *)
(* cr-sqlite keeps per row a causal length cl (odd = alive) in a sentinel clock entry and per column a clock entry;   *)
(* each entry remembers the change that set it: (db_version, seq) of the author.  When a node merges a COLUMN change   *)
(* whose cl is higher than the row's, it creates / raises the sentinel itself and attributes it to that very change:   *)
(* the node then has two rows of that version with the same seq.  The sync server (handle_need) reads the rows of a   *)
(* version ordered by seq and hands them to ChunkedChanges, which stops as soon as it has pushed a row whose seq is     *)
(* the version's last_seq.                                                                                             *)
(* Origin history (fixed): v1 insert 'a', v2 delete, v3 re-insert 'b', v4 update 'c'.  A relay receives the versions   *)
(* from the origin in any order; a client receives each version either from the origin or from the relay's server.     *)
EXTENDS Naturals, Sequences, FiniteSets, TLC

CONSTANTS ColumnFirst      \* TRUE: rows with equal seq are served column row first (ORDER BY seq, cid = '-1'); FALSE: sentinel first (as found)

V == 1..4
(* the origin's changes per version: <<kind, cl, cv, val, seq>> *)
Origin == [v \in V |->
    CASE v = 1 -> <<[k |-> "col", cl |-> 1, cv |-> 1, val |-> "a", seq |-> 0]>>
      [] v = 2 -> <<[k |-> "sen", cl |-> 2, cv |-> 0, val |-> "", seq |-> 0]>>
      [] v = 3 -> <<[k |-> "sen", cl |-> 3, cv |-> 0, val |-> "", seq |-> 0], [k |-> "col", cl |-> 3, cv |-> 1, val |-> "b", seq |-> 1]>>
      [] v = 4 -> <<[k |-> "col", cl |-> 3, cv |-> 2, val |-> "c", seq |-> 0]>>]
LastSeq == [v \in V |-> IF v = 3 THEN 1 ELSE 0]

NoRow == [cl |-> 0, scv |-> 0, sv |-> 0, sseq |-> 0, cv |-> 0, val |-> "", cver |-> 0, cseq |-> 0]
(* cl: causal length; (sv, sseq): version/seq the sentinel entry is attributed to (sv = 0: no entry);                  *)
(* (cv, val): column; (cver, cseq): its attribution (cver = 0: no column entry)                                       *)

VARIABLES relay, client,        \* row states
          rHas, cHas,           \* versions booked
          lost                  \* ghost: the client booked a version from an answer that lacked one of its live changes
vars == <<relay, client, rHas, cHas, lost>>

(* cr-sqlite merge of one change of version v *)
Merge(row, v, ch) ==
    IF ch.k = "sen" THEN
        IF ch.cl > row.cl
        THEN [row EXCEPT !.cl = ch.cl, !.sv = v, !.sseq = ch.seq, !.cv = 0, !.val = "", !.cver = 0, !.cseq = 0]
        ELSE row
    ELSE IF ch.cl > row.cl
         THEN \* the row is (re)created on behalf of the column change: implicit sentinel, attributed to this change
              [cl |-> ch.cl, scv |-> 0, sv |-> v, sseq |-> ch.seq, cv |-> ch.cv, val |-> ch.val, cver |-> v, cseq |-> ch.seq]
         ELSE IF ch.cl < row.cl THEN row
         ELSE IF ch.cv > row.cv \/ (ch.cv = row.cv /\ ch.val > row.val)     \* bigger (col_version, value) wins
              THEN [row EXCEPT !.cv = ch.cv, !.val = ch.val, !.cver = v, !.cseq = ch.seq]
              ELSE row
RECURSIVE MergeAll(_, _, _)
MergeAll(row, v, chs) == IF chs = <<>> THEN row ELSE MergeAll(Merge(row, v, Head(chs)), v, Tail(chs))

(* the rows of version v a node would find in crsql_changes *)
SenRow(row, v) == IF row.sv = v /\ row.cl > 1 THEN {[k |-> "sen", cl |-> row.cl, cv |-> 0, val |-> "", seq |-> row.sseq]} ELSE {}
                  \* (a row that was only ever inserted has no sentinel entry: cl 1 is implicit)
ColRow(row, v) == IF row.cver = v THEN {[k |-> "col", cl |-> row.cl, cv |-> row.cv, val |-> row.val, seq |-> row.cseq]} ELSE {}
Rows(row, v) == SenRow(row, v) \cup ColRow(row, v)

(* ordered as the server reads them, then cut by the chunker at the first row whose seq is last_seq *)
Before(a, b) == a.seq < b.seq \/ (a.seq = b.seq /\ a # b /\ (IF ColumnFirst THEN a.k = "col" ELSE a.k = "sen"))
Ordered(S) == CHOOSE sq \in [1..Cardinality(S) -> S] : (\A i, j \in 1..Cardinality(S) : i < j => Before(sq[i], sq[j]))
RECURSIVE Cut(_, _)
Cut(sq, last) == IF sq = <<>> THEN <<>> ELSE IF Head(sq).seq = last THEN <<Head(sq)>> ELSE <<Head(sq)>> \o Cut(Tail(sq), last)
Served(row, v) == IF Rows(row, v) = {} THEN <<>>      \* nothing left of it: answered as an empty version
                  ELSE LET sq == Ordered(Rows(row, v)) IN Cut(sq, LastSeq[v])

Init == relay = NoRow /\ client = NoRow /\ rHas = {} /\ cHas = {} /\ lost = FALSE

RelayGets(v) == /\ v \notin rHas /\ relay' = MergeAll(relay, v, Origin[v]) /\ rHas' = rHas \cup {v}
                /\ UNCHANGED <<client, cHas, lost>>
ClientFromOrigin(v) == /\ v \notin cHas /\ client' = MergeAll(client, v, Origin[v]) /\ cHas' = cHas \cup {v}
                       /\ UNCHANGED <<relay, rHas, lost>>
ClientFromRelay(v) == /\ v \notin cHas /\ v \in rHas
                      /\ LET ans == Served(relay, v) IN
                         /\ client' = MergeAll(client, v, ans)
                         /\ lost' = (lost \/ \E r \in ColRow(relay, v) : \A i \in 1..Len(ans) : ans[i] # r)
                      /\ cHas' = cHas \cup {v} /\ UNCHANGED <<relay, rHas>>
Next == \E v \in V : RelayGets(v) \/ ClientFromOrigin(v) \/ ClientFromRelay(v)
Spec == Init /\ [][Next]_vars

Final == [cl |-> 3, cv |-> 2, val |-> "c"]
View(row) == [cl |-> row.cl, cv |-> row.cv, val |-> row.val]
(* C01: a node that has booked the whole history holds the merge of it *)
C01_RelayConverged == rHas = V => View(relay) = Final
C01_ClientConverged == cHas = V => View(client) = Final
(* C05/C08: an answer for a held version carries every live change of that version *)
C05_NothingDropped == ~lost
=============================================================================
