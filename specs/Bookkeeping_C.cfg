SPECIFICATION Spec
CONSTANTS
  MaxV = 3
  MaxS = 1
  MaxBatch = 1
  Lasts = {1}
  FullStart = 1
  KF_S2 = TRUE
INVARIANTS
  TypeOK
  C02_HeldIsDurable
  C02_NeedExact
  C02_Disjoint
  C02_PartialExact
  C02_RowsMatch
  C02_ReloadEq
  C02_NoErr
