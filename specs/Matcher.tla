------------------------------ MODULE Matcher ------------------------------
(* Materialised subscriptions (crates/klukai-types/src/pubsub.rs: Matcher::handle_candidates and the         *)
(* per-table statements built at creation).  Two tables A(id, x) and B(id, aid, y); the query shapes are a    *)
(* plain and a filtered projection of A, the inner join A |><| B on B.aid = A.id and the left join A =|><| B.  For every     *)
(* table with changed keys the matcher re-evaluates the query restricted to those keys - with a LEFT JOIN       *)
(* rewritten to an INNER JOIN when the restricted table is the joined (nullable) side -, replaces the stored    *)
(* rows that carry those keys by the result, and emits insert / update / delete events by comparing.            *)
EXTENDS Naturals, FiniteSets, Sequences, TLC

CONSTANTS Ids, Vals, Shape, MaxTx,     \* Shape \in {"filter", "inner", "left"}
          NullSafe                     \* TRUE: the stored row is updated when a column `IS NOT` the new one (the code);
                                       \* FALSE: `!=`, which is NULL whenever one side is NULL (a plausible slip)
Null == 9                              \* SQL NULL stored in a present row (0 == absent row / NULL side of the left join)
IsNull(v) == v = 0 \/ v = Null

VARIABLES A,        \* [Ids -> 0..]: x of row id (0 == absent)
          B,        \* [Ids -> [aid, y]] (aid = 0 == absent)
          view,     \* materialised rows: set of [a, b, x, y] (b = 0 / y = 0 == NULL side)
          pending,  \* candidates not yet processed: [ta : SUBSET Ids, tb : SUBSET Ids]
          events,   \* number of change events emitted (ids are consecutive by construction of the log table)
          ntx
vars == <<A, B, view, pending, events, ntx>>

NoB == [aid |-> 0, y |-> 0]
(* the subscribed query evaluated on the database *)
Q == IF Shape = "filter" THEN {[a |-> i, b |-> 0, x |-> A[i], y |-> 0] : i \in {j \in Ids : A[j] > 1 /\ A[j] # Null}}
     ELSE IF Shape = "plain" THEN {[a |-> i, b |-> 0, x |-> A[i], y |-> 0] : i \in {j \in Ids : A[j] > 0}}
     ELSE LET inner == {[a |-> i, b |-> j, x |-> A[i], y |-> B[j].y] : i \in {k \in Ids : A[k] > 0}, j \in {k \in Ids : B[k].aid # 0}}
              matched == {r \in inner : B[r.b].aid = r.a}
          IN IF Shape = "inner" THEN matched
             ELSE matched \cup {[a |-> i, b |-> 0, x |-> A[i], y |-> 0] : i \in {k \in Ids : A[k] > 0 /\ ~\E r \in matched : r.a = k}}
(* the per-table statement: the query restricted to keys of one table; restricted to B the left join is inner *)
QForA(ks) == {r \in Q : r.a \in ks}
QForB(ks) == {r \in Q : r.b \in ks}          \* rows whose b is a real key: exactly the INNER JOIN rows for those keys

Init == /\ A = [i \in Ids |-> 0] /\ B = [i \in Ids |-> NoB] /\ view = {} /\ pending = [ta |-> {}, tb |-> {}] /\ events = 0 /\ ntx = 0

(* a committed transaction (local or merged): any set of single-row writes on A and B *)
WriteA(i, x) == /\ ntx < MaxTx /\ A[i] # x /\ A' = [A EXCEPT ![i] = x] /\ pending' = [pending EXCEPT !.ta = @ \cup {i}]
                /\ ntx' = ntx + 1 /\ UNCHANGED <<B, view, events>>
WriteB(j, aid, y) == /\ ntx < MaxTx /\ B[j] # [aid |-> aid, y |-> y] /\ (aid = 0) = (y = 0)
                     /\ B' = [B EXCEPT ![j] = [aid |-> aid, y |-> y]] /\ pending' = [pending EXCEPT !.tb = @ \cup {j}]
                     /\ ntx' = ntx + 1 /\ UNCHANGED <<A, view, events>>

(* handle_candidates for one table: S = the per-table statement's result (state_results), the stored rows carrying     *)
(* the candidate keys are T (temp_query).  INSERT .. SELECT (S EXCEPT T) ON CONFLICT(pks) DO UPDATE .. WHERE some      *)
(* column differs; then DELETE the stored rows whose keys are in (T' EXCEPT S).  One event per row touched.            *)
SamePk(t, r) == t.a = r.a /\ t.b = r.b
Differs(t, r) == IF NullSafe THEN t.x # r.x \/ t.y # r.y
                 ELSE (t.x # r.x /\ ~IsNull(t.x) /\ ~IsNull(r.x)) \/ (t.y # r.y /\ ~IsNull(t.y) /\ ~IsNull(r.y))
StepTable(v, Sel(_), S) ==
    LET T == {r \in v : Sel(r)}
        R == S \ T
        applied == {r \in R : \A t \in v : SamePk(t, r) => Differs(t, r)}
        v1 == (v \ {t \in v : \E r \in applied : SamePk(t, r)}) \cup applied
        T1 == {r \in v1 : Sel(r)}
        D == T1 \ S
        gone == {t \in v1 : \E d \in D : SamePk(t, d)}
    IN [view |-> v1 \ gone, n |-> Cardinality(applied) + Cardinality(gone)]

Process ==
    /\ pending.ta # {} \/ pending.tb # {}
    /\ LET SelA(r) == r.a \in pending.ta
           SelB(r) == r.b \in pending.tb
           s1 == IF pending.ta # {} THEN StepTable(view, SelA, QForA(pending.ta)) ELSE [view |-> view, n |-> 0]
           s2 == IF Shape \in {"filter", "plain"} \/ pending.tb = {} THEN [view |-> s1.view, n |-> 0] ELSE StepTable(s1.view, SelB, QForB(pending.tb))
       IN /\ view' = s2.view
          /\ events' = events + s1.n + s2.n
    /\ pending' = [ta |-> {}, tb |-> {}]
    /\ UNCHANGED <<A, B, ntx>>

Next == (\E i \in Ids, x \in Vals \cup {0, Null} : WriteA(i, x)) \/ (\E j \in Ids, aid \in Ids \cup {0}, y \in Vals \cup {0, Null} : WriteB(j, aid, y)) \/ Process
Spec == Init /\ [][Next]_vars

(* C11: after the node has processed the changes, the materialised rows equal the query on the database *)
C11_View == (pending.ta = {} /\ pending.tb = {}) => view = Q
(* at most one stored row per primary-key tuple *)
C11_Keys == \A t, r \in view : SamePk(t, r) => t = r
=============================================================================
