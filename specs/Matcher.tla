------------------------------ MODULE Matcher ------------------------------
(* Materialised subscriptions (crates/klukai-types/src/pubsub.rs: Matcher::handle_candidates and the         *)
(* per-table statements built at creation).  Two tables A(id, x) and B(id, aid, y); the query shapes are a    *)
(* filtered projection of A, the inner join A |><| B on B.aid = A.id and the left join A =|><| B.  For every     *)
(* table with changed keys the matcher re-evaluates the query restricted to those keys - with a LEFT JOIN       *)
(* rewritten to an INNER JOIN when the restricted table is the joined (nullable) side -, replaces the stored    *)
(* rows that carry those keys by the result, and emits insert / update / delete events by comparing.            *)
EXTENDS Naturals, FiniteSets, Sequences, TLC

CONSTANTS Ids, Vals, Shape, MaxTx      \* Shape \in {"filter", "inner", "left"}

VARIABLES A,        \* [Ids -> 0..]: x of row id (0 == absent)
          B,        \* [Ids -> [aid, y]] (aid = 0 == absent)
          view,     \* materialised rows: set of [a, b, x, y] (b = 0 / y = 0 == NULL side)
          pending,  \* candidates not yet processed: [ta : SUBSET Ids, tb : SUBSET Ids]
          events,   \* number of change events emitted (ids are consecutive by construction of the log table)
          ntx
vars == <<A, B, view, pending, events, ntx>>

NoB == [aid |-> 0, y |-> 0]
(* the subscribed query evaluated on the database *)
Q == IF Shape = "filter" THEN {[a |-> i, b |-> 0, x |-> A[i], y |-> 0] : i \in {j \in Ids : A[j] > 1}}
     ELSE LET inner == {[a |-> i, b |-> j, x |-> A[i], y |-> B[j].y] : i \in {k \in Ids : A[k] > 0}, j \in {k \in Ids : B[k].aid # 0}}
              matched == {r \in inner : B[r.b].aid = r.a}
          IN IF Shape = "inner" THEN matched
             ELSE matched \cup {[a |-> i, b |-> 0, x |-> A[i], y |-> 0] : i \in {k \in Ids : A[k] > 0 /\ ~\E r \in matched : r.a = k}}
(* the per-table statement: the query restricted to keys of one table; restricted to B the left join is inner *)
QForA(ks) == {r \in Q : r.a \in ks}
QForB(ks) == {r \in Q : r.b \in ks}          \* rows whose b is a real key: exactly the INNER JOIN rows for those keys

Init == /\ A = [i \in Ids |-> 0] /\ B = [i \in Ids |-> NoB] /\ view = {} /\ pending = [ta |-> {}, tb |-> {}] /\ events = 0 /\ ntx = 0

(* a committed transaction (local or merged): any set of single-row writes on A and B *)
WriteA(i, x) == /\ ntx < MaxTx /\ A[i] # x /\ A' = [A EXCEPT ![i] = x] /\ pending' = [pending EXCEPT !.ta = @ \cup {i}]
                /\ ntx' = ntx + 1 /\ UNCHANGED <<B, view, events>>
WriteB(j, aid, y) == /\ ntx < MaxTx /\ B[j] # [aid |-> aid, y |-> y] /\ (aid = 0) = (y = 0)
                     /\ B' = [B EXCEPT ![j] = [aid |-> aid, y |-> y]] /\ pending' = [pending EXCEPT !.tb = @ \cup {j}]
                     /\ ntx' = ntx + 1 /\ UNCHANGED <<A, view, events>>

(* handle_candidates for the buffered candidates: table A first, then table B *)
Process ==
    /\ pending.ta # {} \/ pending.tb # {}
    /\ LET v1 == (view \ {r \in view : r.a \in pending.ta}) \cup QForA(pending.ta)
           v2 == IF Shape = "filter" THEN v1 ELSE (v1 \ {r \in v1 : r.b \in pending.tb}) \cup QForB(pending.tb)
       IN /\ view' = v2
          /\ events' = events + Cardinality((view \ v2) \cup (v2 \ view))
    /\ pending' = [ta |-> {}, tb |-> {}]
    /\ UNCHANGED <<A, B, ntx>>

Next == (\E i \in Ids, x \in Vals \cup {0} : WriteA(i, x)) \/ (\E j \in Ids, aid \in Ids \cup {0}, y \in Vals \cup {0} : WriteB(j, aid, y)) \/ Process
Spec == Init /\ [][Next]_vars

(* C11: after the node has processed the changes, the materialised rows equal the query on the database *)
C11_View == (pending.ta = {} /\ pending.tb = {}) => view = Q
=============================================================================
