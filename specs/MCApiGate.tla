---------------------------- MODULE MCApiGate ----------------------------
EXTENDS ApiGate
R == {"transactions", "queries", "subscriptions", "updates", "subscription_by_id", "migrations", "table_stats"}
RR == {"queries", "subscriptions", "subscription_by_id"}
M == {"GET", "POST", "PUT", "DELETE"}
RM == [r \in R |-> IF r = "subscription_by_id" THEN "GET" ELSE "POST"]
H == {"missing", "basic", "wrong", "prefix", "suffix", "right_lowercase_scheme", "right"}
SC == {"select", "insert", "update", "delete", "create_table", "drop_table", "pragma_write", "attach", "multi", "cte_write", "returning", "select_side_effect"}
ROC == {"select"}
=============================================================================
