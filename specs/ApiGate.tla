------------------------------ MODULE ApiGate ------------------------------
(* The HTTP API's gate (crates/klukai-agent/src/agent/util.rs: setup_http_api_handler layers require_authz    *)
(* over every route; api/public/mod.rs and pubsub.rs: the read endpoints prepare the statement on a read-only  *)
(* connection and refuse statements that are not read-only).  Deliberately small: the decision table and the   *)
(* effect table, enumerated in full.                                                                            *)
EXTENDS Naturals, FiniteSets, TLC

CONSTANTS Routes, ReadRoutes, Methods, RouteMethod,   \* RouteMethod[r]: the method the route is registered for
          Headers,        \* header shapes; "right" is the only one carrying exactly `Bearer <token>` (scheme case-insensitive)
          StmtClasses, ReadOnlyClasses

VARIABLES tokenSet, route, method, header, stmt
vars == <<tokenSet, route, method, header, stmt>>

Init == /\ tokenSet \in BOOLEAN /\ route \in Routes \cup {"unknown"} /\ method \in Methods
        /\ header \in Headers /\ stmt \in StmtClasses
Next == UNCHANGED vars
Spec == Init /\ [][Next]_vars

Authorized == ~tokenSet \/ header \in {"right", "right_lowercase_scheme"}
(* what the router + middleware answer *)
Status == IF ~Authorized THEN "client_error"
          ELSE IF route = "unknown" THEN "not_found"
          ELSE IF method # RouteMethod[route] THEN "method_not_allowed"
          ELSE "handler"
(* what the request may do to the node *)
Effect == IF Status # "handler" THEN "none"
          ELSE IF route \in ReadRoutes THEN (IF stmt \in ReadOnlyClasses THEN "read" ELSE "refused")
          ELSE "write"

(* C17 *)
C17_TokenEnforced == (tokenSet /\ header \notin {"right", "right_lowercase_scheme"}) => (Status = "client_error" /\ Effect = "none")
C17_OpenWithoutToken == ~tokenSet => Status # "client_error"
C17_ReadEndpointsCannotWrite == route \in ReadRoutes => Effect # "write"
=============================================================================
