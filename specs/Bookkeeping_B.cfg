SPECIFICATION Spec
CONSTANTS
  MaxV = 2
  MaxS = 2
  MaxBatch = 2
  Lasts = {2}
  FullStart = 0
  KF_S2 = TRUE
INVARIANTS
  TypeOK
  C02_HeldIsDurable
  C02_NeedExact
  C02_Disjoint
  C02_PartialExact
  C02_RowsMatch
  C02_ReloadEq
  C02_NoErr
