------------------------------ MODULE Updates ------------------------------
(* Row-level update notifications (crates/klukai-types/src/updates.rs): every committed transaction hands   *)
(* its impactful changes to match_changes, which sends one candidate (key, causal length) per key to the      *)
(* table's handle; the send falls back to a spawned task when the channel is full, and different writers      *)
(* (local write path, ingest path, buffered apply) call match_changes from different tasks, so candidates can *)
(* reach batch_candidates out of commit order.  batch_candidates keeps the highest causal length seen per key *)
(* (cl_cache, bounded), buffers candidates and every 600 ms / 1000 candidates emits one notification per key:  *)
(* "delete" when the causal length is even, "upsert" otherwise.                                                *)
EXTENDS Naturals, FiniteSets, Sequences, TLC

CONSTANTS Keys, MaxCl, MaxInFlight, CacheCap, CacheKeep, MaxWrites

VARIABLES cl,        \* [Keys -> 0..MaxCl]: causal length of the row in the database (0 never existed, odd present, even deleted)
          flight,    \* candidates sent but not yet received by batch_candidates: a bag as Seq, any element may arrive next
          cache,     \* Seq of [key, cl]: cl_cache in insertion order
          buf,       \* [Keys -> 0..MaxCl]: buffered candidates (0 == none)
          out,       \* Seq of [key, kind]: notifications delivered to the listener
          changed,   \* ghost: keys changed by a committed transaction since the listener attached
          writes     \* ghost: number of committed transactions (bounds the exploration)
vars == <<cl, flight, cache, buf, out, changed, writes>>

Init == /\ cl = [k \in Keys |-> 0] /\ flight = <<>> /\ cache = <<>> /\ buf = [k \in Keys |-> 0] /\ out = <<>> /\ changed = {} /\ writes = 0

(* a committed transaction changes key k: insert / re-insert / delete move the causal length, an update keeps it *)
Write(k, bump) ==
    /\ Len(flight) < MaxInFlight /\ writes < MaxWrites /\ writes' = writes + 1
    /\ cl[k] + (IF bump THEN 1 ELSE 0) <= MaxCl
    /\ (~bump => cl[k] % 2 = 1)                         \* only an existing row can be updated
    /\ cl' = [cl EXCEPT ![k] = IF bump THEN @ + 1 ELSE @]
    /\ flight' = Append(flight, [key |-> k, cl |-> cl'[k]])
    /\ changed' = changed \cup {k}
    /\ UNCHANGED <<cache, buf, out>>

CacheIdx(k) == {i \in 1..Len(cache) : cache[i].key = k}
(* batch_candidates receives one candidate (any of the in-flight ones: async fallback / concurrent senders) *)
Recv(i) ==
    /\ i \in 1..Len(flight)
    /\ LET c == flight[i]
           idx == CacheIdx(c.key)
           stale == idx # {} /\ cache[CHOOSE j \in idx : TRUE].cl > c.cl
           cache1 == IF idx = {} THEN Append(cache, c)
                     ELSE [cache EXCEPT ![CHOOSE j \in idx : TRUE].cl = IF stale THEN @ ELSE c.cl]
       IN /\ buf' = IF stale THEN buf ELSE [buf EXCEPT ![c.key] = c.cl]
          /\ cache' = IF Len(cache1) > CacheCap THEN SubSeq(cache1, Len(cache1) - CacheKeep + 1, Len(cache1)) ELSE cache1
    /\ flight' = [j \in 1..(Len(flight) - 1) |-> IF j < i THEN flight[j] ELSE flight[j + 1]]
    /\ UNCHANGED <<cl, out, changed, writes>>

RECURSIVE Notes(_, _)
Notes(ks, b) == IF ks = {} THEN <<>>
                ELSE LET k == CHOOSE k \in ks : \A q \in ks : k <= q
                     IN (IF b[k] = 0 THEN <<>> ELSE <<[key |-> k, kind |-> IF b[k] % 2 = 0 THEN "delete" ELSE "upsert", cl |-> b[k]]>>) \o Notes(ks \ {k}, b)
(* the deadline / threshold fires: handle_candidates *)
Flush == /\ \E k \in Keys : buf[k] # 0
         /\ out' = out \o Notes(Keys, buf)
         /\ buf' = [k \in Keys |-> 0]
         /\ UNCHANGED <<cl, flight, cache, changed, writes>>

Next == (\E k \in Keys, b \in BOOLEAN : Write(k, b)) \/ (\E i \in 1..MaxInFlight : Recv(i)) \/ Flush
Spec == Init /\ [][Next]_vars

-----------------------------------------------------------------------------
Quiet == flight = <<>> /\ \A k \in Keys : buf[k] = 0
LastFor(k) == LET idx == {i \in 1..Len(out) : out[i].key = k} IN out[CHOOSE i \in idx : \A j \in idx : j <= i]
(* C14: every key changed after attach has a notification *)
C14_Complete == Quiet => \A k \in changed : \E i \in 1..Len(out) : out[i].key = k
(* C14: the last notification for a key says "delete" exactly when the row no longer exists *)
C14_Fate == Quiet => \A k \in changed : (LastFor(k).kind = "delete") = (cl[k] % 2 = 0)
(* C14: an older state of a key is never delivered after a newer one *)
C14_Monotone == \A i, j \in 1..Len(out) : (i < j /\ out[i].key = out[j].key) => out[i].cl <= out[j].cl
=============================================================================
