---- MODULE SubLifecycle_TTrace_1790170992 ----
EXTENDS Sequences, SubLifecycle, TLCExt, Toolbox, Naturals, TLC

_expression ==
    LET SubLifecycle_TEExpression == INSTANCE SubLifecycle_TEExpression
    IN SubLifecycle_TEExpression!expression
----

_trace ==
    LET SubLifecycle_TETrace == INSTANCE SubLifecycle_TETrace
    IN SubLifecycle_TETrace!trace
----

_inv ==
    ~(
        TLCGet("level") = Len(_TETrace)
        /\
        proc = ("up")
        /\
        meta = ("completed")
        /\
        lost = (0)
        /\
        served = (TRUE)
        /\
        dir = (TRUE)
        /\
        chan = (0)
        /\
        unmatched = (1)
    )
----

_init ==
    /\ proc = _TETrace[1].proc
    /\ unmatched = _TETrace[1].unmatched
    /\ meta = _TETrace[1].meta
    /\ served = _TETrace[1].served
    /\ dir = _TETrace[1].dir
    /\ lost = _TETrace[1].lost
    /\ chan = _TETrace[1].chan
----

_next ==
    /\ \E i,j \in DOMAIN _TETrace:
        /\ \/ /\ j = i + 1
              /\ i = TLCGet("level")
        /\ proc  = _TETrace[i].proc
        /\ proc' = _TETrace[j].proc
        /\ unmatched  = _TETrace[i].unmatched
        /\ unmatched' = _TETrace[j].unmatched
        /\ meta  = _TETrace[i].meta
        /\ meta' = _TETrace[j].meta
        /\ served  = _TETrace[i].served
        /\ served' = _TETrace[j].served
        /\ dir  = _TETrace[i].dir
        /\ dir' = _TETrace[j].dir
        /\ lost  = _TETrace[i].lost
        /\ lost' = _TETrace[j].lost
        /\ chan  = _TETrace[i].chan
        /\ chan' = _TETrace[j].chan

\* Uncomment the ASSUME below to write the states of the error trace
\* to the given file in Json format. Note that you can pass any tuple
\* to `JsonSerialize`. For example, a sub-sequence of _TETrace.
    \* ASSUME
    \*     LET J == INSTANCE Json
    \*         IN J!JsonSerialize("SubLifecycle_TTrace_1790170992.json", _TETrace)

=============================================================================

 Note that you can extract this module `SubLifecycle_TEExpression`
  to a dedicated file to reuse `expression` (the module in the 
  dedicated `SubLifecycle_TEExpression.tla` file takes precedence 
  over the module `SubLifecycle_TEExpression` below).

---- MODULE SubLifecycle_TEExpression ----
EXTENDS Sequences, SubLifecycle, TLCExt, Toolbox, Naturals, TLC

expression == 
    [
        \* To hide variables of the `SubLifecycle` spec from the error trace,
        \* remove the variables below.  The trace will be written in the order
        \* of the fields of this record.
        proc |-> proc
        ,unmatched |-> unmatched
        ,meta |-> meta
        ,served |-> served
        ,dir |-> dir
        ,lost |-> lost
        ,chan |-> chan
        
        \* Put additional constant-, state-, and action-level expressions here:
        \* ,_stateNumber |-> _TEPosition
        \* ,_procUnchanged |-> proc = proc'
        
        \* Format the `proc` variable as Json value.
        \* ,_procJson |->
        \*     LET J == INSTANCE Json
        \*     IN J!ToJson(proc)
        
        \* Lastly, you may build expressions over arbitrary sets of states by
        \* leveraging the _TETrace operator.  For example, this is how to
        \* count the number of times a spec variable changed up to the current
        \* state in the trace.
        \* ,_procModCount |->
        \*     LET F[s \in DOMAIN _TETrace] ==
        \*         IF s = 1 THEN 0
        \*         ELSE IF _TETrace[s].proc # _TETrace[s-1].proc
        \*             THEN 1 + F[s-1] ELSE F[s-1]
        \*     IN F[_TEPosition - 1]
    ]

=============================================================================



Parsing and semantic processing can take forever if the trace below is long.
 In this case, it is advised to uncomment the module below to deserialize the
 trace from a generated binary file.

\*
\*---- MODULE SubLifecycle_TETrace ----
\*EXTENDS IOUtils, SubLifecycle, TLC
\*
\*trace == IODeserialize("SubLifecycle_TTrace_1790170992.bin", TRUE)
\*
\*=============================================================================
\*

---- MODULE SubLifecycle_TETrace ----
EXTENDS SubLifecycle, TLC

trace == 
    <<
    ([proc |-> "up",meta |-> "none",lost |-> 0,served |-> FALSE,dir |-> FALSE,chan |-> 0,unmatched |-> 0]),
    ([proc |-> "up",meta |-> "created",lost |-> 0,served |-> FALSE,dir |-> TRUE,chan |-> 0,unmatched |-> 0]),
    ([proc |-> "up",meta |-> "running",lost |-> 0,served |-> TRUE,dir |-> TRUE,chan |-> 0,unmatched |-> 0]),
    ([proc |-> "tripped",meta |-> "running",lost |-> 0,served |-> TRUE,dir |-> TRUE,chan |-> 0,unmatched |-> 0]),
    ([proc |-> "dropped",meta |-> "running",lost |-> 0,served |-> TRUE,dir |-> TRUE,chan |-> 0,unmatched |-> 0]),
    ([proc |-> "dropped",meta |-> "completed",lost |-> 0,served |-> TRUE,dir |-> TRUE,chan |-> 0,unmatched |-> 0]),
    ([proc |-> "down",meta |-> "completed",lost |-> 0,served |-> FALSE,dir |-> TRUE,chan |-> 0,unmatched |-> 0]),
    ([proc |-> "up",meta |-> "completed",lost |-> 0,served |-> TRUE,dir |-> TRUE,chan |-> 0,unmatched |-> 0]),
    ([proc |-> "up",meta |-> "completed",lost |-> 0,served |-> TRUE,dir |-> TRUE,chan |-> 0,unmatched |-> 1])
    >>
----


=============================================================================

---- CONFIG SubLifecycle_TTrace_1790170992 ----
CONSTANTS
    MaxChanges = 3
    GuardedDrop = TRUE
    RestoreMarksRunning = FALSE

INVARIANT
    _inv

CHECK_DEADLOCK
    \* CHECK_DEADLOCK off because of PROPERTY or INVARIANT above.
    FALSE

INIT
    _init

NEXT
    _next

CONSTANT
    _TETrace <- _trace

ALIAS
    _expression
=============================================================================
\* Generated on Wed Sep 23 13:43:19 UTC 2026