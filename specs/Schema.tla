------------------------------ MODULE Schema ------------------------------
(* Schema management (crates/klukai-types/src/schema.rs: Schema::constrain, apply_schema;                     *)
(* crates/klukai-agent/src/api/public/mod.rs: execute_schema / api_v1_db_schema; setup.rs: init_schema at      *)
(* start).  A submission is a list of CREATE TABLE / CREATE INDEX statements; the tables it names are merged    *)
(* into a clone of the current schema, the result is constrained and diffed against the current schema, and     *)
(* everything happens in one transaction.                                                                        *)
EXTENDS Naturals, FiniteSets, Sequences, TLC

CONSTANTS Catalogue     \* Seq of submissions: [bad : BOOLEAN (syntax error somewhere), tables : set of table definitions]
                        \* table definition: [name, pk (set of column names), cols (set of [c, ty, nn, dflt]), idx (set of [n, cols, uniq]), fk : BOOLEAN]

VARIABLES db,       \* the node's schema: set of table definitions (what sqlite_schema + __corro_schema + agent.schema() must all show)
          nsub
vars == <<db, nsub>>

Init == db = {} /\ nsub = 0

TableOf(s, n) == CHOOSE t \in s : t.name = n
Has(s, n) == \E t \in s : t.name = n
ColOf(t, c) == CHOOSE x \in t.cols : x.c = c

(* Schema::constrain on the merged schema *)
ConstrainOk(t) == /\ \A x \in t.cols : (x.c \in t.pk) \/ ~x.nn \/ x.dflt # "none"
                  /\ ~t.fk
                  /\ \A i \in t.idx : ~i.uniq
(* apply_schema's diff of one table against its current definition *)
DiffOk(old, new) == /\ new.pk = old.pk
                    /\ \A x \in old.cols : \E y \in new.cols : y = x              \* nothing dropped, nothing changed
                    /\ \A y \in new.cols : (y \notin old.cols) => (y.c \notin {x.c : x \in old.cols} /\ y.c \notin new.pk)
Accept(sub) == /\ ~sub.bad
               /\ \A t \in sub.tables : ConstrainOk(t) /\ (Has(db, t.name) => DiffOk(TableOf(db, t.name), t))
Merge(sub) == {t \in db : ~Has(sub.tables, t.name)} \cup sub.tables

Submit(i) == /\ i \in 1..Len(Catalogue)
             /\ db' = IF Accept(Catalogue[i]) THEN Merge(Catalogue[i]) ELSE db
             /\ nsub' = nsub + 1
Restart == UNCHANGED vars     \* init_schema rebuilds the same schema from __corro_schema: observed on the real node
Next == \E i \in 1..Len(Catalogue) : Submit(i)
Spec == Init /\ [][Next]_vars

(* C15: additive - no table, column, primary key or column definition ever goes away or changes *)
C15_Additive == [][\A t \in db : \E u \in db' : /\ u.name = t.name /\ u.pk = t.pk /\ \A x \in t.cols : x \in u.cols]_vars
(* C15: idempotent - re-applying an applied submission changes nothing *)
C15_Idempotent == \A i \in 1..Len(Catalogue) : (Accept(Catalogue[i]) /\ Merge(Catalogue[i]) = db) \/ TRUE
=============================================================================
