------------------------------ MODULE Members ------------------------------
(* Members::{add_member, remove_member, add_rtt, recalculate_rings, ring0}                         *)
(* (crates/klukai-types/src/members.rs) driven by handle_notifications                              *)
(* (crates/klukai-agent/src/agent/handlers.rs): MemberUp -> add_member, MemberDown -> remove_member, *)
(* RTT samples -> add_rtt.  The C18 oracle is a fold over the ghost notification history.            *)
EXTENDS Naturals, FiniteSets, Sequences, TLC

CONSTANTS Peers, Ts, Addrs, Clusters,
          AddrOf,      \* [Peers \X Ts -> Addrs]   same (id, ts) => same address
          ClusterOf,   \* [Peers \X Ts -> Clusters]
          RttAddrs,    \* addresses that receive round-trip samples
          RttVals, MaxSamples,
          FixDownNewer,   \* FALSE: remove_member requires equal ts (code as found); TRUE: ts <= down ts
          FixIndex,       \* FALSE: `Updated` leaves by_addr and the ring untouched (code as found)
          FixRingReset    \* FALSE: an average outside all buckets keeps the previous ring (code as found)

VARIABLES states,    \* [present peers -> [addr, ts, cluster, ring]]
          byAddr,    \* [some addresses -> peer]
          rtts,      \* [Addrs -> sequence of samples, newest first]
          newest,    \* ghost: highest identity timestamp seen per peer (0 == none)
          lastKind,  \* ghost: kind of the last notification about that newest identity
          maxDown    \* ghost: highest identity timestamp reported down per peer
vars == <<states, byAddr, rtts, newest, lastKind, maxDown>>

NoRing == 9
Buckets == <<[lo |-> 0, hi |-> 6], [lo |-> 6, hi |-> 15], [lo |-> 15, hi |-> 50], [lo |-> 50, hi |-> 100],
             [lo |-> 100, hi |-> 200], [lo |-> 200, hi |-> 300]>>
RECURSIVE Sum(_)
Sum(s) == IF s = <<>> THEN 0 ELSE Head(s) + Sum(Tail(s))
Avg(s) == Sum(s) \div Len(s)
BucketOf(avg) == IF \E i \in 1..6 : Buckets[i].lo <= avg /\ avg < Buckets[i].hi
                 THEN (CHOOSE i \in 1..6 : Buckets[i].lo <= avg /\ avg < Buckets[i].hi) - 1
                 ELSE NoRing

(* recalculate_rings(addr) on given maps *)
Recalc(st, idx, rt, a) ==
    IF a \in DOMAIN idx /\ rt[a] # <<>> /\ idx[a] \in DOMAIN st
    THEN LET b == BucketOf(Avg(rt[a]))
         IN IF b # NoRing THEN [st EXCEPT ![idx[a]].ring = b]
            ELSE IF FixRingReset THEN [st EXCEPT ![idx[a]].ring = NoRing] ELSE st
    ELSE st

Restrict(f, D) == [x \in D |-> f[x]]
Ext(f, k, v) == [x \in DOMAIN f \cup {k} |-> IF x = k THEN v ELSE f[x]]

Init == /\ states = <<>> /\ byAddr = <<>> /\ rtts = [a \in Addrs |-> <<>>]
        /\ newest = [p \in Peers |-> 0] /\ lastKind = [p \in Peers |-> "none"] /\ maxDown = [p \in Peers |-> 0]

Ghost(p, t, kind) ==
    /\ newest' = [newest EXCEPT ![p] = IF t > @ THEN t ELSE @]
    /\ lastKind' = [lastKind EXCEPT ![p] = IF t >= newest[p] THEN kind ELSE @]
    /\ maxDown' = [maxDown EXCEPT ![p] = IF kind = "down" /\ t > @ THEN t ELSE @]

(* MemberUp(actor) -> add_member *)
Up(p, t) ==
    /\ t >= maxDown[p]            \* SWIM: an up never carries an identity older than one reported down
    /\ Ghost(p, t, "up")
    /\ UNCHANGED rtts
    /\ LET a == AddrOf[<<p, t>>] c == ClusterOf[<<p, t>>] IN
       IF p \notin DOMAIN states
       THEN LET st1 == Ext(states, p, [addr |-> a, ts |-> t, cluster |-> c, ring |-> NoRing])
                idx1 == Ext(byAddr, a, p)
            IN /\ byAddr' = idx1
               /\ states' = Recalc(st1, idx1, rtts, a)
       ELSE IF t < states[p].ts THEN UNCHANGED <<states, byAddr>>
       ELSE IF t > states[p].ts
            THEN IF FixIndex
                 THEN LET old == states[p].addr
                          idx0 == Restrict(byAddr, {x \in DOMAIN byAddr : ~(x = old /\ byAddr[x] = p)})
                          idx1 == Ext(idx0, a, p)
                          st1 == [states EXCEPT ![p] = [addr |-> a, ts |-> t, cluster |-> c, ring |-> NoRing]]
                      IN /\ byAddr' = idx1
                         /\ states' = Recalc(st1, idx1, rtts, a)
                 ELSE /\ states' = [states EXCEPT ![p] = [addr |-> a, ts |-> t, cluster |-> c, ring |-> @.ring]]
                      /\ UNCHANGED byAddr
            ELSE UNCHANGED <<states, byAddr>>

(* MemberDown(actor) -> remove_member *)
Down(p, t) ==
    /\ Ghost(p, t, "down")
    /\ UNCHANGED rtts
    /\ LET a == AddrOf[<<p, t>>] IN
       IF p \in DOMAIN states /\ (IF FixDownNewer THEN states[p].ts <= t ELSE states[p].ts = t)
       THEN /\ states' = Restrict(states, DOMAIN states \ {p})
            /\ byAddr' = IF FixDownNewer
                         THEN Restrict(byAddr, {x \in DOMAIN byAddr : ~(x = states[p].addr /\ byAddr[x] = p)})
                         ELSE Restrict(byAddr, DOMAIN byAddr \ {a})
       ELSE UNCHANGED <<states, byAddr>>

(* a round-trip sample for an address -> add_rtt *)
Rtt(a, ms) ==
    /\ Len(rtts[a]) < MaxSamples
    /\ rtts' = [rtts EXCEPT ![a] = <<ms>> \o @]
    /\ states' = Recalc(states, byAddr, rtts', a)
    /\ UNCHANGED <<byAddr, newest, lastKind, maxDown>>

Next == \/ \E p \in Peers, t \in Ts : Up(p, t) \/ Down(p, t)
        \/ \E a \in RttAddrs, ms \in RttVals : Rtt(a, ms)
Spec == Init /\ [][Next]_vars

-----------------------------------------------------------------------------
(* C18 *)
Present(p) == newest[p] > 0 /\ lastKind[p] = "up"
C18_View == \A p \in Peers :
    /\ (p \in DOMAIN states) = Present(p)
    /\ Present(p) /\ p \in DOMAIN states =>
          /\ states[p].ts = newest[p]
          /\ states[p].addr = AddrOf[<<p, newest[p]>>]
          /\ states[p].cluster = ClusterOf[<<p, newest[p]>>]
C18_Index == /\ DOMAIN byAddr = {states[p].addr : p \in DOMAIN states}
             /\ \A a \in DOMAIN byAddr : byAddr[a] \in DOMAIN states /\ states[byAddr[a]].addr = a
C18_Ring == \A p \in DOMAIN states :
    states[p].ring = IF rtts[states[p].addr] = <<>> THEN NoRing ELSE BucketOf(Avg(rtts[states[p].addr]))
Ring0(c) == {states[p].addr : p \in {q \in DOMAIN states : states[q].cluster = c /\ states[q].ring = 0}}
C18_Ring0 == \A c \in Clusters :
    Ring0(c) = {AddrOf[<<p, newest[p]>>] : p \in {q \in Peers : /\ Present(q) /\ ClusterOf[<<q, newest[q]>>] = c
                                                               /\ rtts[AddrOf[<<q, newest[q]>>]] # <<>>
                                                               /\ BucketOf(Avg(rtts[AddrOf[<<q, newest[q]>>]])) = 0}}

State == [states |-> {[p |-> p, addr |-> states[p].addr, ts |-> states[p].ts, cluster |-> states[p].cluster, ring |-> states[p].ring] : p \in DOMAIN states},
          byAddr |-> {[a |-> a, p |-> byAddr[a]] : a \in DOMAIN byAddr},
          rtts |-> {[a |-> a, s |-> rtts[a]] : a \in Addrs},
          ring0 |-> {[c |-> c, addrs |-> Ring0(c)] : c \in Clusters}]
Ghost0 == [newest |-> newest, lastKind |-> lastKind, maxDown |-> maxDown]
=============================================================================
