----------------------------- MODULE SyncNeeds -----------------------------
(* SyncStateV1::compute_available_needs (crates/klukai-types/src/sync.rs) for one origin actor,     *)
(* transcribed statement by statement, and what C04 demands of its result.                           *)
(* The function treats every actor of `other.heads` independently, so one actor (plus the "is it     *)
(* ourselves?" flag and the "known to only one side" case head = 0) is the whole input space.        *)
EXTENDS Naturals, FiniteSets, Sequences, TLC, Ranges

CONSTANTS MaxH,    \* heads are 0..MaxH (0 == the side does not know the actor)
          MaxS,    \* sequences are 0..MaxS
          MaxP     \* at most MaxP partially held versions per side

VARIABLES ours, theirs, isSelf
vars == <<ours, theirs, isSelf>>

SeqSets == (SUBSET (0..MaxS)) \ {{}}
(* a well-formed advertised state for one actor: [head, need, partial] with partial a set of [v, missing] *)
PartialMaps(vs) == UNION {
    LET pick == {ps \in SUBSET vs : Cardinality(ps) = n} IN
    UNION {{ {[v |-> pv[1], missing |-> pv[2]] : pv \in f} : f \in {g \in SUBSET (ps \X SeqSets) : /\ Cardinality(g) = n
                                                                                                  /\ \A x, y \in g : x[1] = y[1] => x = y} } : ps \in pick}
    : n \in 0..MaxP}
States == UNION {UNION {{[head |-> h, need |-> nd, partial |-> pm] : pm \in PartialMaps((1..h) \ nd)} : nd \in SUBSET (1..h)} : h \in 0..MaxH}

Init == ours \in States /\ theirs \in States /\ isSelf \in BOOLEAN
Next == UNCHANGED vars
Spec == Init /\ [][Next]_vars

PV(st) == {p.v : p \in st.partial}
Missing(st, v) == (CHOOSE p \in st.partial : p.v = v).missing

-----------------------------------------------------------------------------
(* compute_available_needs, abstracted to the set of versions asked in full and the seqs asked per version *)
OtherHaves == ((1..theirs.head) \ theirs.need) \ PV(theirs)

FromNeed == ours.need \cap OtherHaves          \* our_need ranges x overlapping haves
HeadTail == IF theirs.head > ours.head THEN (ours.head + 1)..theirs.head ELSE {}   \* `missing`
PartialReq(v) ==
    IF v \in OtherHaves THEN Missing(ours, v)
    ELSE IF v \in PV(theirs)
         THEN LET end == Max2(MaxOf(Missing(theirs, v)), MaxOf(Missing(ours, v)))
                  otherSeqHaves == (0..end) \ Missing(theirs, v)
              IN Missing(ours, v) \cap otherSeqHaves
         ELSE {}

Skipped == isSelf \/ theirs.head = 0
FullReq == IF Skipped THEN {} ELSE FromNeed \cup HeadTail
SeqReq == IF Skipped THEN {} ELSE {[v |-> v, seqs |-> PartialReq(v)] : v \in {x \in PV(ours) : PartialReq(x) # {}}}
Out == [full |-> FullReq, partial |-> SeqReq]

-----------------------------------------------------------------------------
(* C04 *)
TheirHave == ((1..theirs.head) \ theirs.need) \ PV(theirs)
SeqReqOf(v) == IF \E r \in SeqReq : r.v = v THEN (CHOOSE r \in SeqReq : r.v = v).seqs ELSE {}
LackFull(v) == v > ours.head \/ v \in ours.need

C04_CompleteFull == ~isSelf => \A v \in TheirHave : LackFull(v) => v \in FullReq
C04_CompletePartial == ~isSelf => \A v \in PV(ours) \cap TheirHave : Missing(ours, v) \subseteq SeqReqOf(v)
C04_CompleteBothPartial == ~isSelf => \A v \in PV(ours) \cap PV(theirs) : (Missing(ours, v) \ Missing(theirs, v)) \subseteq SeqReqOf(v)
C04_WithinHead == /\ \A v \in FullReq : v >= 1 /\ v <= theirs.head
                  /\ \A r \in SeqReq : r.v >= 1 /\ r.v <= theirs.head
C04_NotSelf == isSelf => (FullReq = {} /\ SeqReq = {})
(* nothing it cannot give / does not miss at seq level *)
C04_SeqSound == \A r \in SeqReq : /\ r.seqs \subseteq Missing(ours, r.v)
                                  /\ (r.v \in PV(theirs) => r.seqs \cap Missing(theirs, r.v) = {})
                                  /\ r.v \notin theirs.need
=============================================================================
