----------------------------- MODULE SyncClient -----------------------------
(* The request scheduler of a sync round (crates/klukai-agent/src/api/peer/mod.rs: parallel_sync, the task         *)
(* "send_sync_requests").  After the handshakes every reachable peer s has a queue of needs the client computed      *)
(* against that peer's advertised state (compute_available_needs, then whole-version needs cut by chunk_range).      *)
(* The scheduler walks the peers round-robin; from each it pops up to Drain needs from the BACK of the queue,         *)
(* removes what was already requested from anybody in this round (req_full / req_partials) and sends the rest.       *)
(* A unit is one version, or one sequence number of a partially held version; a need is a set of units.               *)
EXTENDS Naturals, Sequences, FiniteSets, TLC, Json

CONSTANTS Servers,       \* peers that completed the handshake and have needs
          Queues,        \* set of [Servers -> Seq(SUBSET Units)]: needs per peer, in the order the client computed them
          Drain,         \* needs popped per peer and turn (10 in the code)
          Dedupe         \* TRUE: skip what was requested from another peer already (the code); FALSE: ask everybody

VARIABLES Queue,     \* the needs of this round (one element of Queues)
          order,     \* the servers vector (the order in which the handshakes completed)
          pos,       \* position in the current turn
          q,         \* remaining needs per server
          req,       \* units requested so far in this round
          sent       \* [Servers -> Seq(SUBSET Units)]: requests written to each peer
vars == <<Queue, order, pos, q, req, sent>>

Perms(S) == {f \in [1..Cardinality(S) -> S] : \A i, j \in 1..Cardinality(S) : i # j => f[i] # f[j]}
UnitsOf(s) == UNION {Queue[s][i] : i \in 1..Len(Queue[s])}

Init == /\ Queue \in Queues /\ order \in Perms(Servers) /\ pos = 1
        /\ q = Queue /\ req = {} /\ sent = [s \in Servers |-> <<>>]

RECURSIVE PopBack(_, _, _, _)
(* pop up to n needs from the back of queue qs: returns [q, req, out] *)
PopBack(qs, n, rq, out) ==
    IF n = 0 \/ qs = <<>> THEN [q |-> qs, req |-> rq, out |-> out]
    ELSE LET need == qs[Len(qs)]
             fresh == IF Dedupe THEN need \ rq ELSE need
         IN PopBack(SubSeq(qs, 1, Len(qs) - 1), n - 1, rq \cup fresh, IF fresh = {} THEN out ELSE Append(out, fresh))

Live == {i \in 1..Len(order) : q[order[i]] # <<>>}
Turn == /\ Live # {}
        /\ LET i == IF \E j \in Live : j >= pos THEN CHOOSE j \in Live : j >= pos /\ \A k \in Live : k >= pos => j <= k
                    ELSE CHOOSE j \in Live : \A k \in Live : j <= k
               s == order[i]
               r == PopBack(q[s], Drain, req, <<>>)
           IN /\ q' = [q EXCEPT ![s] = r.q]
              /\ req' = r.req
              /\ sent' = [sent EXCEPT ![s] = @ \o r.out]
              /\ pos' = i + 1
        /\ UNCHANGED <<order, Queue>>
Done == Live = {}
Next == Turn \/ (Done /\ UNCHANGED vars)
Spec == Init /\ [][Next]_vars /\ WF_vars(Turn)

SentTo(s) == UNION {sent[s][i] : i \in 1..Len(sent[s])}
(* C04: nothing is requested from a peer that does not advertise it *)
C04_OnlyAdvertised == \A s \in Servers : SentTo(s) \subseteq UnitsOf(s)
(* nothing is requested twice in one round, neither from one peer nor from two *)
C04_NoDuplicate == /\ \A s \in Servers : \A i, j \in 1..Len(sent[s]) : i # j => sent[s][i] \cap sent[s][j] = {}
                   /\ \A s, t \in Servers : s # t => SentTo(s) \cap SentTo(t) = {}
(* C04: when the round is over everything some peer can give has been requested from somebody *)
C04_AllRequested == Done => UNION {SentTo(s) : s \in Servers} = UNION {UnitsOf(s) : s \in Servers}
C04_Terminates == <>Done
(* one line per finished round: the assignment (for the comparison with the requests the real servers read) *)
Export == Done => PrintT("ASSIGN " \o ToJson([s \in Servers |-> SentTo(s)]))
=============================================================================
