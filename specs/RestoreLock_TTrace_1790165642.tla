---- MODULE RestoreLock_TTrace_1790165642 ----
EXTENDS Sequences, TLCExt, Toolbox, RestoreLock, Naturals, TLC

_expression ==
    LET RestoreLock_TEExpression == INSTANCE RestoreLock_TEExpression
    IN RestoreLock_TEExpression!expression
----

_trace ==
    LET RestoreLock_TETrace == INSTANCE RestoreLock_TETrace
    IN RestoreLock_TETrace!trace
----

_inv ==
    ~(
        TLCGet("level") = Len(_TETrace)
        /\
        walFile = ({2})
        /\
        rs = ("done")
        /\
        rd = ([r1 |-> [pc |-> "idle", ntx |-> 0, snap |-> {}, seen |-> {}, cache |-> <<"none", "none">>, hdrCopy |-> "none", versCopy |-> "none"], r2 |-> [pc |-> "reading", ntx |-> 1, snap |-> {2}, seen |-> {"old", "new"}, cache |-> <<"new", "old">>, hdrCopy |-> "Hf", versCopy |-> "none"]])
        /\
        file = (<<"new", "new">>)
        /\
        ex = ([PENDING |-> "none", RESERVED |-> "none", SHARED |-> "none", DMS |-> "none", WRITE |-> "none", CKPT |-> "none", RECOVER |-> "none", READ |-> "none"])
        /\
        sh = ([PENDING |-> {}, RESERVED |-> {}, SHARED |-> {}, DMS |-> {}, WRITE |-> {}, CKPT |-> {}, RECOVER |-> {}, READ |-> {"r2"}])
        /\
        vers = ("vn")
        /\
        shmFrames = ({2})
        /\
        shm = ("Hf")
    )
----

_init ==
    /\ shm = _TETrace[1].shm
    /\ file = _TETrace[1].file
    /\ vers = _TETrace[1].vers
    /\ walFile = _TETrace[1].walFile
    /\ rd = _TETrace[1].rd
    /\ ex = _TETrace[1].ex
    /\ rs = _TETrace[1].rs
    /\ sh = _TETrace[1].sh
    /\ shmFrames = _TETrace[1].shmFrames
----

_next ==
    /\ \E i,j \in DOMAIN _TETrace:
        /\ \/ /\ j = i + 1
              /\ i = TLCGet("level")
        /\ shm  = _TETrace[i].shm
        /\ shm' = _TETrace[j].shm
        /\ file  = _TETrace[i].file
        /\ file' = _TETrace[j].file
        /\ vers  = _TETrace[i].vers
        /\ vers' = _TETrace[j].vers
        /\ walFile  = _TETrace[i].walFile
        /\ walFile' = _TETrace[j].walFile
        /\ rd  = _TETrace[i].rd
        /\ rd' = _TETrace[j].rd
        /\ ex  = _TETrace[i].ex
        /\ ex' = _TETrace[j].ex
        /\ rs  = _TETrace[i].rs
        /\ rs' = _TETrace[j].rs
        /\ sh  = _TETrace[i].sh
        /\ sh' = _TETrace[j].sh
        /\ shmFrames  = _TETrace[i].shmFrames
        /\ shmFrames' = _TETrace[j].shmFrames

\* Uncomment the ASSUME below to write the states of the error trace
\* to the given file in Json format. Note that you can pass any tuple
\* to `JsonSerialize`. For example, a sub-sequence of _TETrace.
    \* ASSUME
    \*     LET J == INSTANCE Json
    \*         IN J!JsonSerialize("RestoreLock_TTrace_1790165642.json", _TETrace)

=============================================================================

 Note that you can extract this module `RestoreLock_TEExpression`
  to a dedicated file to reuse `expression` (the module in the 
  dedicated `RestoreLock_TEExpression.tla` file takes precedence 
  over the module `RestoreLock_TEExpression` below).

---- MODULE RestoreLock_TEExpression ----
EXTENDS Sequences, TLCExt, Toolbox, RestoreLock, Naturals, TLC

expression == 
    [
        \* To hide variables of the `RestoreLock` spec from the error trace,
        \* remove the variables below.  The trace will be written in the order
        \* of the fields of this record.
        shm |-> shm
        ,file |-> file
        ,vers |-> vers
        ,walFile |-> walFile
        ,rd |-> rd
        ,ex |-> ex
        ,rs |-> rs
        ,sh |-> sh
        ,shmFrames |-> shmFrames
        
        \* Put additional constant-, state-, and action-level expressions here:
        \* ,_stateNumber |-> _TEPosition
        \* ,_shmUnchanged |-> shm = shm'
        
        \* Format the `shm` variable as Json value.
        \* ,_shmJson |->
        \*     LET J == INSTANCE Json
        \*     IN J!ToJson(shm)
        
        \* Lastly, you may build expressions over arbitrary sets of states by
        \* leveraging the _TETrace operator.  For example, this is how to
        \* count the number of times a spec variable changed up to the current
        \* state in the trace.
        \* ,_shmModCount |->
        \*     LET F[s \in DOMAIN _TETrace] ==
        \*         IF s = 1 THEN 0
        \*         ELSE IF _TETrace[s].shm # _TETrace[s-1].shm
        \*             THEN 1 + F[s-1] ELSE F[s-1]
        \*     IN F[_TEPosition - 1]
    ]

=============================================================================



Parsing and semantic processing can take forever if the trace below is long.
 In this case, it is advised to uncomment the module below to deserialize the
 trace from a generated binary file.

\*
\*---- MODULE RestoreLock_TETrace ----
\*EXTENDS IOUtils, RestoreLock, TLC
\*
\*trace == IODeserialize("RestoreLock_TTrace_1790165642.bin", TRUE)
\*
\*=============================================================================
\*

---- MODULE RestoreLock_TETrace ----
EXTENDS RestoreLock, TLC

trace == 
    <<
    ([walFile |-> {2},rs |-> "l_pending",rd |-> [r1 |-> [pc |-> "idle", ntx |-> 0, snap |-> {}, seen |-> {}, cache |-> <<"none", "none">>, hdrCopy |-> "none", versCopy |-> "none"], r2 |-> [pc |-> "idle", ntx |-> 0, snap |-> {}, seen |-> {}, cache |-> <<"none", "none">>, hdrCopy |-> "none", versCopy |-> "none"]],file |-> <<"old", "stale">>,ex |-> [PENDING |-> "none", RESERVED |-> "none", SHARED |-> "none", DMS |-> "none", WRITE |-> "none", CKPT |-> "none", RECOVER |-> "none", READ |-> "none"],sh |-> [PENDING |-> {}, RESERVED |-> {}, SHARED |-> {}, DMS |-> {}, WRITE |-> {}, CKPT |-> {}, RECOVER |-> {}, READ |-> {}],vers |-> "vo",shmFrames |-> {2},shm |-> "Hf"]),
    ([walFile |-> {2},rs |-> "l_shared",rd |-> [r1 |-> [pc |-> "idle", ntx |-> 0, snap |-> {}, seen |-> {}, cache |-> <<"none", "none">>, hdrCopy |-> "none", versCopy |-> "none"], r2 |-> [pc |-> "idle", ntx |-> 0, snap |-> {}, seen |-> {}, cache |-> <<"none", "none">>, hdrCopy |-> "none", versCopy |-> "none"]],file |-> <<"old", "stale">>,ex |-> [PENDING |-> "none", RESERVED |-> "none", SHARED |-> "none", DMS |-> "none", WRITE |-> "none", CKPT |-> "none", RECOVER |-> "none", READ |-> "none"],sh |-> [PENDING |-> {"restorer"}, RESERVED |-> {}, SHARED |-> {}, DMS |-> {}, WRITE |-> {}, CKPT |-> {}, RECOVER |-> {}, READ |-> {}],vers |-> "vo",shmFrames |-> {2},shm |-> "Hf"]),
    ([walFile |-> {2},rs |-> "u_pending",rd |-> [r1 |-> [pc |-> "idle", ntx |-> 0, snap |-> {}, seen |-> {}, cache |-> <<"none", "none">>, hdrCopy |-> "none", versCopy |-> "none"], r2 |-> [pc |-> "idle", ntx |-> 0, snap |-> {}, seen |-> {}, cache |-> <<"none", "none">>, hdrCopy |-> "none", versCopy |-> "none"]],file |-> <<"old", "stale">>,ex |-> [PENDING |-> "none", RESERVED |-> "none", SHARED |-> "none", DMS |-> "none", WRITE |-> "none", CKPT |-> "none", RECOVER |-> "none", READ |-> "none"],sh |-> [PENDING |-> {"restorer"}, RESERVED |-> {}, SHARED |-> {"restorer"}, DMS |-> {}, WRITE |-> {}, CKPT |-> {}, RECOVER |-> {}, READ |-> {}],vers |-> "vo",shmFrames |-> {2},shm |-> "Hf"]),
    ([walFile |-> {2},rs |-> "w_dms",rd |-> [r1 |-> [pc |-> "idle", ntx |-> 0, snap |-> {}, seen |-> {}, cache |-> <<"none", "none">>, hdrCopy |-> "none", versCopy |-> "none"], r2 |-> [pc |-> "idle", ntx |-> 0, snap |-> {}, seen |-> {}, cache |-> <<"none", "none">>, hdrCopy |-> "none", versCopy |-> "none"]],file |-> <<"old", "stale">>,ex |-> [PENDING |-> "none", RESERVED |-> "none", SHARED |-> "none", DMS |-> "none", WRITE |-> "none", CKPT |-> "none", RECOVER |-> "none", READ |-> "none"],sh |-> [PENDING |-> {}, RESERVED |-> {}, SHARED |-> {"restorer"}, DMS |-> {}, WRITE |-> {}, CKPT |-> {}, RECOVER |-> {}, READ |-> {}],vers |-> "vo",shmFrames |-> {2},shm |-> "Hf"]),
    ([walFile |-> {2},rs |-> "w_write",rd |-> [r1 |-> [pc |-> "idle", ntx |-> 0, snap |-> {}, seen |-> {}, cache |-> <<"none", "none">>, hdrCopy |-> "none", versCopy |-> "none"], r2 |-> [pc |-> "idle", ntx |-> 0, snap |-> {}, seen |-> {}, cache |-> <<"none", "none">>, hdrCopy |-> "none", versCopy |-> "none"]],file |-> <<"old", "stale">>,ex |-> [PENDING |-> "none", RESERVED |-> "none", SHARED |-> "none", DMS |-> "none", WRITE |-> "none", CKPT |-> "none", RECOVER |-> "none", READ |-> "none"],sh |-> [PENDING |-> {}, RESERVED |-> {}, SHARED |-> {"restorer"}, DMS |-> {"restorer"}, WRITE |-> {}, CKPT |-> {}, RECOVER |-> {}, READ |-> {}],vers |-> "vo",shmFrames |-> {2},shm |-> "Hf"]),
    ([walFile |-> {2},rs |-> "w_ckpt",rd |-> [r1 |-> [pc |-> "idle", ntx |-> 0, snap |-> {}, seen |-> {}, cache |-> <<"none", "none">>, hdrCopy |-> "none", versCopy |-> "none"], r2 |-> [pc |-> "idle", ntx |-> 0, snap |-> {}, seen |-> {}, cache |-> <<"none", "none">>, hdrCopy |-> "none", versCopy |-> "none"]],file |-> <<"old", "stale">>,ex |-> [PENDING |-> "none", RESERVED |-> "none", SHARED |-> "none", DMS |-> "none", WRITE |-> "restorer", CKPT |-> "none", RECOVER |-> "none", READ |-> "none"],sh |-> [PENDING |-> {}, RESERVED |-> {}, SHARED |-> {"restorer"}, DMS |-> {"restorer"}, WRITE |-> {}, CKPT |-> {}, RECOVER |-> {}, READ |-> {}],vers |-> "vo",shmFrames |-> {2},shm |-> "Hf"]),
    ([walFile |-> {2},rs |-> "w_recover",rd |-> [r1 |-> [pc |-> "idle", ntx |-> 0, snap |-> {}, seen |-> {}, cache |-> <<"none", "none">>, hdrCopy |-> "none", versCopy |-> "none"], r2 |-> [pc |-> "idle", ntx |-> 0, snap |-> {}, seen |-> {}, cache |-> <<"none", "none">>, hdrCopy |-> "none", versCopy |-> "none"]],file |-> <<"old", "stale">>,ex |-> [PENDING |-> "none", RESERVED |-> "none", SHARED |-> "none", DMS |-> "none", WRITE |-> "restorer", CKPT |-> "restorer", RECOVER |-> "none", READ |-> "none"],sh |-> [PENDING |-> {}, RESERVED |-> {}, SHARED |-> {"restorer"}, DMS |-> {"restorer"}, WRITE |-> {}, CKPT |-> {}, RECOVER |-> {}, READ |-> {}],vers |-> "vo",shmFrames |-> {2},shm |-> "Hf"]),
    ([walFile |-> {2},rs |-> "w_read",rd |-> [r1 |-> [pc |-> "idle", ntx |-> 0, snap |-> {}, seen |-> {}, cache |-> <<"none", "none">>, hdrCopy |-> "none", versCopy |-> "none"], r2 |-> [pc |-> "idle", ntx |-> 0, snap |-> {}, seen |-> {}, cache |-> <<"none", "none">>, hdrCopy |-> "none", versCopy |-> "none"]],file |-> <<"old", "stale">>,ex |-> [PENDING |-> "none", RESERVED |-> "none", SHARED |-> "none", DMS |-> "none", WRITE |-> "restorer", CKPT |-> "restorer", RECOVER |-> "restorer", READ |-> "none"],sh |-> [PENDING |-> {}, RESERVED |-> {}, SHARED |-> {"restorer"}, DMS |-> {"restorer"}, WRITE |-> {}, CKPT |-> {}, RECOVER |-> {}, READ |-> {}],vers |-> "vo",shmFrames |-> {2},shm |-> "Hf"]),
    ([walFile |-> {2},rs |-> "rm_journal",rd |-> [r1 |-> [pc |-> "idle", ntx |-> 0, snap |-> {}, seen |-> {}, cache |-> <<"none", "none">>, hdrCopy |-> "none", versCopy |-> "none"], r2 |-> [pc |-> "idle", ntx |-> 0, snap |-> {}, seen |-> {}, cache |-> <<"none", "none">>, hdrCopy |-> "none", versCopy |-> "none"]],file |-> <<"old", "stale">>,ex |-> [PENDING |-> "none", RESERVED |-> "none", SHARED |-> "none", DMS |-> "none", WRITE |-> "restorer", CKPT |-> "restorer", RECOVER |-> "restorer", READ |-> "restorer"],sh |-> [PENDING |-> {}, RESERVED |-> {}, SHARED |-> {"restorer"}, DMS |-> {"restorer"}, WRITE |-> {}, CKPT |-> {}, RECOVER |-> {}, READ |-> {}],vers |-> "vo",shmFrames |-> {2},shm |-> "Hf"]),
    ([walFile |-> {2},rs |-> "trunc_wal",rd |-> [r1 |-> [pc |-> "idle", ntx |-> 0, snap |-> {}, seen |-> {}, cache |-> <<"none", "none">>, hdrCopy |-> "none", versCopy |-> "none"], r2 |-> [pc |-> "idle", ntx |-> 0, snap |-> {}, seen |-> {}, cache |-> <<"none", "none">>, hdrCopy |-> "none", versCopy |-> "none"]],file |-> <<"old", "stale">>,ex |-> [PENDING |-> "none", RESERVED |-> "none", SHARED |-> "none", DMS |-> "none", WRITE |-> "restorer", CKPT |-> "restorer", RECOVER |-> "restorer", READ |-> "restorer"],sh |-> [PENDING |-> {}, RESERVED |-> {}, SHARED |-> {"restorer"}, DMS |-> {"restorer"}, WRITE |-> {}, CKPT |-> {}, RECOVER |-> {}, READ |-> {}],vers |-> "vo",shmFrames |-> {2},shm |-> "Hf"]),
    ([walFile |-> {2},rs |-> "copy1",rd |-> [r1 |-> [pc |-> "idle", ntx |-> 0, snap |-> {}, seen |-> {}, cache |-> <<"none", "none">>, hdrCopy |-> "none", versCopy |-> "none"], r2 |-> [pc |-> "idle", ntx |-> 0, snap |-> {}, seen |-> {}, cache |-> <<"none", "none">>, hdrCopy |-> "none", versCopy |-> "none"]],file |-> <<"old", "stale">>,ex |-> [PENDING |-> "none", RESERVED |-> "none", SHARED |-> "none", DMS |-> "none", WRITE |-> "restorer", CKPT |-> "restorer", RECOVER |-> "restorer", READ |-> "restorer"],sh |-> [PENDING |-> {}, RESERVED |-> {}, SHARED |-> {"restorer"}, DMS |-> {"restorer"}, WRITE |-> {}, CKPT |-> {}, RECOVER |-> {}, READ |-> {}],vers |-> "vo",shmFrames |-> {2},shm |-> "Hf"]),
    ([walFile |-> {2},rs |-> "copy2",rd |-> [r1 |-> [pc |-> "idle", ntx |-> 0, snap |-> {}, seen |-> {}, cache |-> <<"none", "none">>, hdrCopy |-> "none", versCopy |-> "none"], r2 |-> [pc |-> "idle", ntx |-> 0, snap |-> {}, seen |-> {}, cache |-> <<"none", "none">>, hdrCopy |-> "none", versCopy |-> "none"]],file |-> <<"new", "stale">>,ex |-> [PENDING |-> "none", RESERVED |-> "none", SHARED |-> "none", DMS |-> "none", WRITE |-> "restorer", CKPT |-> "restorer", RECOVER |-> "restorer", READ |-> "restorer"],sh |-> [PENDING |-> {}, RESERVED |-> {}, SHARED |-> {"restorer"}, DMS |-> {"restorer"}, WRITE |-> {}, CKPT |-> {}, RECOVER |-> {}, READ |-> {}],vers |-> "vn",shmFrames |-> {2},shm |-> "Hf"]),
    ([walFile |-> {2},rs |-> "zero_shm",rd |-> [r1 |-> [pc |-> "idle", ntx |-> 0, snap |-> {}, seen |-> {}, cache |-> <<"none", "none">>, hdrCopy |-> "none", versCopy |-> "none"], r2 |-> [pc |-> "idle", ntx |-> 0, snap |-> {}, seen |-> {}, cache |-> <<"none", "none">>, hdrCopy |-> "none", versCopy |-> "none"]],file |-> <<"new", "new">>,ex |-> [PENDING |-> "none", RESERVED |-> "none", SHARED |-> "none", DMS |-> "none", WRITE |-> "restorer", CKPT |-> "restorer", RECOVER |-> "restorer", READ |-> "restorer"],sh |-> [PENDING |-> {}, RESERVED |-> {}, SHARED |-> {"restorer"}, DMS |-> {"restorer"}, WRITE |-> {}, CKPT |-> {}, RECOVER |-> {}, READ |-> {}],vers |-> "vn",shmFrames |-> {2},shm |-> "Hf"]),
    ([walFile |-> {2},rs |-> "exit",rd |-> [r1 |-> [pc |-> "idle", ntx |-> 0, snap |-> {}, seen |-> {}, cache |-> <<"none", "none">>, hdrCopy |-> "none", versCopy |-> "none"], r2 |-> [pc |-> "idle", ntx |-> 0, snap |-> {}, seen |-> {}, cache |-> <<"none", "none">>, hdrCopy |-> "none", versCopy |-> "none"]],file |-> <<"new", "new">>,ex |-> [PENDING |-> "none", RESERVED |-> "none", SHARED |-> "none", DMS |-> "none", WRITE |-> "restorer", CKPT |-> "restorer", RECOVER |-> "restorer", READ |-> "restorer"],sh |-> [PENDING |-> {}, RESERVED |-> {}, SHARED |-> {"restorer"}, DMS |-> {"restorer"}, WRITE |-> {}, CKPT |-> {}, RECOVER |-> {}, READ |-> {}],vers |-> "vn",shmFrames |-> {2},shm |-> "invalid"]),
    ([walFile |-> {2},rs |-> "done",rd |-> [r1 |-> [pc |-> "idle", ntx |-> 0, snap |-> {}, seen |-> {}, cache |-> <<"none", "none">>, hdrCopy |-> "none", versCopy |-> "none"], r2 |-> [pc |-> "idle", ntx |-> 0, snap |-> {}, seen |-> {}, cache |-> <<"none", "none">>, hdrCopy |-> "none", versCopy |-> "none"]],file |-> <<"new", "new">>,ex |-> [PENDING |-> "none", RESERVED |-> "none", SHARED |-> "none", DMS |-> "none", WRITE |-> "none", CKPT |-> "none", RECOVER |-> "none", READ |-> "none"],sh |-> [PENDING |-> {}, RESERVED |-> {}, SHARED |-> {}, DMS |-> {}, WRITE |-> {}, CKPT |-> {}, RECOVER |-> {}, READ |-> {}],vers |-> "vn",shmFrames |-> {2},shm |-> "invalid"]),
    ([walFile |-> {2},rs |-> "done",rd |-> [r1 |-> [pc |-> "idle", ntx |-> 0, snap |-> {}, seen |-> {}, cache |-> <<"none", "none">>, hdrCopy |-> "none", versCopy |-> "none"], r2 |-> [pc |-> "idle", ntx |-> 0, snap |-> {}, seen |-> {}, cache |-> <<"none", "none">>, hdrCopy |-> "Hf", versCopy |-> "none"]],file |-> <<"new", "new">>,ex |-> [PENDING |-> "none", RESERVED |-> "none", SHARED |-> "none", DMS |-> "none", WRITE |-> "none", CKPT |-> "none", RECOVER |-> "none", READ |-> "none"],sh |-> [PENDING |-> {}, RESERVED |-> {}, SHARED |-> {}, DMS |-> {}, WRITE |-> {}, CKPT |-> {}, RECOVER |-> {}, READ |-> {}],vers |-> "vn",shmFrames |-> {2},shm |-> "Hf"]),
    ([walFile |-> {2},rs |-> "done",rd |-> [r1 |-> [pc |-> "idle", ntx |-> 0, snap |-> {}, seen |-> {}, cache |-> <<"none", "none">>, hdrCopy |-> "none", versCopy |-> "none"], r2 |-> [pc |-> "reading", ntx |-> 1, snap |-> {2}, seen |-> {}, cache |-> <<"none", "none">>, hdrCopy |-> "Hf", versCopy |-> "none"]],file |-> <<"new", "new">>,ex |-> [PENDING |-> "none", RESERVED |-> "none", SHARED |-> "none", DMS |-> "none", WRITE |-> "none", CKPT |-> "none", RECOVER |-> "none", READ |-> "none"],sh |-> [PENDING |-> {}, RESERVED |-> {}, SHARED |-> {}, DMS |-> {}, WRITE |-> {}, CKPT |-> {}, RECOVER |-> {}, READ |-> {"r2"}],vers |-> "vn",shmFrames |-> {2},shm |-> "Hf"]),
    ([walFile |-> {2},rs |-> "done",rd |-> [r1 |-> [pc |-> "idle", ntx |-> 0, snap |-> {}, seen |-> {}, cache |-> <<"none", "none">>, hdrCopy |-> "none", versCopy |-> "none"], r2 |-> [pc |-> "reading", ntx |-> 1, snap |-> {2}, seen |-> {"new"}, cache |-> <<"new", "none">>, hdrCopy |-> "Hf", versCopy |-> "none"]],file |-> <<"new", "new">>,ex |-> [PENDING |-> "none", RESERVED |-> "none", SHARED |-> "none", DMS |-> "none", WRITE |-> "none", CKPT |-> "none", RECOVER |-> "none", READ |-> "none"],sh |-> [PENDING |-> {}, RESERVED |-> {}, SHARED |-> {}, DMS |-> {}, WRITE |-> {}, CKPT |-> {}, RECOVER |-> {}, READ |-> {"r2"}],vers |-> "vn",shmFrames |-> {2},shm |-> "Hf"]),
    ([walFile |-> {2},rs |-> "done",rd |-> [r1 |-> [pc |-> "idle", ntx |-> 0, snap |-> {}, seen |-> {}, cache |-> <<"none", "none">>, hdrCopy |-> "none", versCopy |-> "none"], r2 |-> [pc |-> "reading", ntx |-> 1, snap |-> {2}, seen |-> {"old", "new"}, cache |-> <<"new", "old">>, hdrCopy |-> "Hf", versCopy |-> "none"]],file |-> <<"new", "new">>,ex |-> [PENDING |-> "none", RESERVED |-> "none", SHARED |-> "none", DMS |-> "none", WRITE |-> "none", CKPT |-> "none", RECOVER |-> "none", READ |-> "none"],sh |-> [PENDING |-> {}, RESERVED |-> {}, SHARED |-> {}, DMS |-> {}, WRITE |-> {}, CKPT |-> {}, RECOVER |-> {}, READ |-> {"r2"}],vers |-> "vn",shmFrames |-> {2},shm |-> "Hf"])
    >>
----


=============================================================================

---- CONFIG RestoreLock_TTrace_1790165642 ----
CONSTANTS
    Readers = { "r1" , "r2" }
    Wal = TRUE
    Quiescent = FALSE
    SameVers = FALSE
    TruncateWal = FALSE
    ZeroShm = TRUE
    MaxTx = 2

INVARIANT
    _inv

CHECK_DEADLOCK
    \* CHECK_DEADLOCK off because of PROPERTY or INVARIANT above.
    FALSE

INIT
    _init

NEXT
    _next

CONSTANT
    _TETrace <- _trace

ALIAS
    _expression
=============================================================================
\* Generated on Wed Sep 23 12:14:25 UTC 2026