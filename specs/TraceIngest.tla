---------------------------- MODULE TraceIngest ----------------------------
(* The events recorded from the real ingest loop (harness/src/ingest.rs, hooks in handle_changes and at    *)
(* the commit point of process_multiple_changes) must be a behaviour of Ingest.tla; the C10 invariants are   *)
(* evaluated on every state.                                                                                  *)
EXTENDS Ingest, Json, IOUtils

Rec == ndJsonDeserialize(IOEnv.TRACE)
VARIABLE l
tvars == <<queue, bufCost, seen, inflight, known, part, l>>

ToChange(j) == IF j.k = "empty" THEN [k |-> "empty", a |-> j.a, v |-> j.v] ELSE [k |-> "full", a |-> j.a, v |-> j.v, lo |-> j.lo, hi |-> j.hi]
Ev == Rec[l]
IsEvent(name) == l <= Len(Rec) /\ Rec[l].ev = name /\ l' = l + 1

TraceInit == Init /\ l = 2

TrRecvSeen == /\ IsEvent("recv") /\ Ev.decision = "seen"
              /\ ~SpawnEnabled /\ Suppressed(ToChange(Ev.c))
              /\ UNCHANGED vars
TrRecvKnown == /\ IsEvent("recv") /\ Ev.decision = "known"
               /\ ~SpawnEnabled /\ ~Suppressed(ToChange(Ev.c)) /\ Held(ToChange(Ev.c))
               /\ UNCHANGED vars
TrRecvQueued == /\ IsEvent("recv") /\ Ev.decision = "queued"
                /\ LET c == ToChange(Ev.c) IN
                   /\ ~Suppressed(c)
                   /\ (Len(queue) >= QLen) = (Ev.dropped.k # "none")
                   /\ (Ev.dropped.k # "none" => ToChange(Ev.dropped) = Head(queue))
                   /\ (IF Held(c) THEN RecvLate(c) ELSE Recv(c))
                   \* what the real cache still marks as seen of the dropped changeset, right after the eviction,
                   \* is what the specification's cache does
                   /\ (Ev.dropped.k = "full" =>
                          LET d == ToChange(Ev.dropped)
                              s1 == Evict(seen, IF FixS3 THEN d.a ELSE c.a, d)
                              idx == {i \in 1..Len(s1) : s1[i].a = d.a /\ s1[i].v = d.v}
                              left == IF idx = {} THEN {} ELSE s1[CHOOSE i \in idx : TRUE].seqs
                          IN {Ev.still_seen[i] : i \in 1..Len(Ev.still_seen)} = CSeqs(d) \cap left)
                /\ Ev.queue_len = Len(queue')
TrSpawnLoop == /\ IsEvent("spawn") /\ Ev.site = "loop"
               /\ Spawn
               /\ inflight'[Len(inflight')] = [i \in 1..Len(Ev.batch) |-> ToChange(Ev.batch[i])]
               /\ Ev.inflight = Len(inflight')
(* the tick is two observable steps in the code: flush the queue, then trim the cache *)
TrSpawnTick == /\ IsEvent("spawn") /\ Ev.site = "tick"
               /\ ~SpawnEnabled /\ bufCost < Chunk /\ queue # <<>> /\ Len(inflight) < MaxInflight
               /\ queue = [i \in 1..Len(Ev.batch) |-> ToChange(Ev.batch[i])]
               /\ inflight' = Append(inflight, queue) /\ queue' = <<>> /\ bufCost' = 0
               /\ UNCHANGED <<seen, known, part>>
TrTrim == /\ IsEvent("trim")
          /\ Len(seen) > SeenMax /\ Ev.kept = Keep
          /\ seen' = SubSeq(seen, Len(seen) - Keep + 1, Len(seen))
          /\ UNCHANGED <<queue, bufCost, inflight, known, part>>
(* bookkeeping committed by process_multiple_changes for one actor of one in-flight batch *)
RECURSIVE ApplyProcessed(_, _, _, _)
ApplyProcessed(st, a, pr, i) ==
    IF i > Len(pr) THEN st
    ELSE LET p == pr[i]
             vs == p.vlo..p.vhi
             sq == UNION {p.seqs[j][1]..p.seqs[j][2] : j \in 1..Len(p.seqs)}
         IN ApplyProcessed(IF p.partial
                           THEN [known |-> st.known, part |-> [x \in DOMAIN st.part |-> IF x[1] = a /\ x[2] \in vs THEN st.part[x] \cup sq ELSE st.part[x]]]
                           ELSE [known |-> [st.known EXCEPT ![a] = @ \cup (vs \cap Vs)], part |-> [x \in DOMAIN st.part |-> IF x[1] = a /\ x[2] \in vs THEN {} ELSE st.part[x]]],
                           a, pr, i + 1)
TrCommit == /\ IsEvent("commit")
            /\ \E i \in 1..Len(inflight) :
                 LET mine == SelectSeq(inflight[i], LAMBDA c : c.a = Ev.a)
                     exp == ApplyBatch([known |-> known, part |-> part], mine)
                     got == ApplyProcessed([known |-> known, part |-> part], Ev.a, Ev.processed, 1)
                 IN /\ mine # <<>>
                    /\ exp = got                  \* what the code says it processed is what the specification predicts
                    /\ known' = got.known /\ part' = got.part
            /\ UNCHANGED <<queue, bufCost, seen, inflight>>
Forgotten == [k \in 1..Len(Ev.forgotten) |-> ToChange(Ev.forgotten[k])]
TrDone == /\ IsEvent("done") /\ Ev.ok /\ Len(Ev.forgotten) = 0
          /\ \E i \in 1..Len(inflight) : Done(i)
          /\ Ev.inflight = Len(inflight')
(* a joined batch with changesets the bookkeeping did not contain when the loop looked: exactly those are forgotten *)
TrDoneForget == /\ IsEvent("done") /\ Len(Ev.forgotten) > 0
                /\ \E i \in 1..Len(inflight) : DoneLate(i, Forgotten)
                /\ Ev.inflight = Len(inflight')
TrFinal == /\ IsEvent("final") /\ UNCHANGED vars

TraceNext == TrRecvSeen \/ TrRecvKnown \/ TrRecvQueued \/ TrSpawnLoop \/ TrSpawnTick \/ TrTrim \/ TrCommit \/ TrDone \/ TrDoneForget \/ TrFinal
TraceSpec == TraceInit /\ [][TraceNext]_tvars

(* the trace may branch (which batch a commit/done belongs to): accept iff some path consumes everything *)
TraceAccepted ==
    LET d == TLCGet("stats").diameter IN
    IF d = Len(Rec) THEN TRUE ELSE PrintT(<<"TRACE-REJECTED", "first unmatched event", d + 1>>) /\ FALSE
=============================================================================
