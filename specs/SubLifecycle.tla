---------------------------- MODULE SubLifecycle ----------------------------
(* Life cycle of a materialised subscription across shutdowns (crates/klukai-types/src/pubsub.rs:           *)
(* Matcher::{create, run, cmd_loop, restore, cleanup}, SubsManager::drop_handles;                             *)
(* crates/klukai-agent/src/agent/setup.rs: setup_spawn_subscriptions; crates/klukai/src/command/agent.rs:     *)
(* trip -> await the HTTP/ingest handles -> drop_handles -> wait for the counted tasks).                      *)
(* A committed database change reaches the matcher in a separate, spawned step (broadcast_changes ->           *)
(* match_changes for local writes, the tail of process_multiple_changes / buffered apply for remote ones).     *)
EXTENDS Naturals, TLC

CONSTANTS MaxChanges,
          GuardedDrop,     \* FALSE: drop_handles may run while committed changes are still unmatched (code as found)
          RestoreMarksRunning   \* TRUE: a restored subscription is marked "running" again (run_restore); FALSE: the marker stays "completed"

VARIABLES meta,       \* "none" | "created" | "running" | "completed" | "cancelled": the marker in the subscription database
          dir,        \* the subscription directory exists
          proc,       \* "up" | "tripped" | "dropped" | "down": phase of the node process
          unmatched,  \* committed database changes whose match step has not run yet
          chan,       \* candidates sent to the matcher, not yet processed
          lost,       \* changes whose match step found no handle (never reach the matcher)
          served      \* the subscription is being served to clients in the current process
vars == <<meta, dir, proc, unmatched, chan, lost, served>>

Init == /\ meta = "none" /\ dir = FALSE /\ proc = "up" /\ unmatched = 0 /\ chan = 0 /\ lost = 0 /\ served = FALSE

Create == /\ proc = "up" /\ meta = "none" /\ meta' = "created" /\ dir' = TRUE /\ UNCHANGED <<proc, unmatched, chan, lost, served>>
InitialQueryDone == /\ proc = "up" /\ meta = "created" /\ meta' = "running" /\ served' = TRUE /\ UNCHANGED <<dir, proc, unmatched, chan, lost>>
(* a write is committed and acknowledged; writes stop being accepted once the HTTP/ingest handles are gone *)
Change == /\ proc \in {"up", "tripped"} /\ unmatched + chan + lost < MaxChanges
          /\ unmatched' = unmatched + 1 /\ UNCHANGED <<meta, dir, proc, chan, lost, served>>
(* the spawned match step of one committed change *)
MatchStep == /\ unmatched > 0 /\ proc # "down" /\ unmatched' = unmatched - 1
             /\ IF meta \in {"none", "created"} THEN UNCHANGED <<lost, chan>>               \* the initial query will see it
                ELSE IF proc = "dropped" \/ ~served THEN lost' = lost + 1 /\ UNCHANGED chan   \* no handle left: silently skipped
                ELSE chan' = chan + 1 /\ UNCHANGED lost
             /\ UNCHANGED <<meta, dir, proc, served>>
Process == /\ chan > 0 /\ (meta = "running" \/ (~RestoreMarksRunning /\ served /\ meta = "completed")) /\ proc \in {"up", "tripped", "dropped"} /\ chan' = chan - 1
           /\ UNCHANGED <<meta, dir, proc, unmatched, lost, served>>
Trip == /\ proc = "up" /\ proc' = "tripped" /\ UNCHANGED <<meta, dir, unmatched, chan, lost, served>>
DropHandles == /\ proc = "tripped" /\ (GuardedDrop => unmatched = 0)
               /\ proc' = "dropped" /\ UNCHANGED <<meta, dir, unmatched, chan, lost, served>>
(* cmd_loop after the trip: the channel closes once the handles are dropped, the rest is processed, marker written *)
SetCompleted == /\ proc = "dropped" /\ meta = "running" /\ chan = 0 /\ meta' = "completed"
                /\ UNCHANGED <<dir, proc, unmatched, chan, lost, served>>
Exit == /\ proc = "dropped" /\ unmatched = 0 /\ (meta = "running" => FALSE) /\ proc' = "down" /\ served' = FALSE
        /\ UNCHANGED <<meta, dir, unmatched, chan, lost>>
(* the process dies at any point *)
Kill == /\ proc # "down" /\ proc' = "down" /\ served' = FALSE /\ unmatched' = 0 /\ chan' = 0
        /\ lost' = lost + unmatched + chan
        /\ UNCHANGED <<meta, dir>>
(* setup_spawn_subscriptions: restore only what was marked completed, remove everything else *)
Start == /\ proc = "down" /\ proc' = "up"
         /\ IF dir /\ meta = "completed" THEN meta' = (IF RestoreMarksRunning THEN "running" ELSE "completed") /\ served' = TRUE /\ UNCHANGED dir
            ELSE meta' = "none" /\ dir' = FALSE /\ served' = FALSE
         /\ lost' = IF dir /\ meta = "completed" THEN lost ELSE 0
         /\ UNCHANGED <<unmatched, chan>>

Next == Create \/ InitialQueryDone \/ Change \/ MatchStep \/ Process \/ Trip \/ DropHandles \/ SetCompleted \/ Exit \/ Kill \/ Start
Spec == Init /\ [][Next]_vars

(* C13: a subscription is served after a restart only if its previous run finished cleanly ... *)
C13_RestoreOnlyCompleted == [][(proc = "down" /\ proc' = "up" /\ served') => meta = "completed"]_vars
(* ... and the clean marker is only ever present when nothing that changed the database is unmatched *)
C13_CompletedIsCurrent == meta = "completed" => (unmatched = 0 /\ chan = 0 /\ lost = 0)
(* whatever is served equals its query up to the changes still on their way *)
C13_ServedIsCurrent == (served /\ meta = "running") => lost = 0
C13_UncleanRemoved == [][(proc = "down" /\ proc' = "up" /\ meta # "completed") => ~dir']_vars
=============================================================================
