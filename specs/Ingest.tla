------------------------------ MODULE Ingest ------------------------------
(* The ingest loop handle_changes (crates/klukai-agent/src/agent/handlers.rs): bounded queue with         *)
(* drop-oldest load shedding, the `seen` duplicate-suppression cache, batches handed to                    *)
(* process_multiple_changes (at most MaxInflight at a time), the periodic tick that flushes the queue and   *)
(* trims the cache.  Every version of every foreign actor has the sequences 0..MaxSeq; the changesets that   *)
(* can be offered for a version are any contiguous chunk lo..hi of it (complete when 0..MaxSeq) and "empty".  *)
EXTENDS Naturals, FiniteSets, Sequences, TLC

CONSTANTS Actors, Vs, MaxSeq, QLen, Chunk, MaxInflight, SeenMax, Keep,
          FixS3,        \* FALSE: drop-oldest evicts the cache entry keyed by the INCOMING changeset's actor (code as found)
          ApplyMayFail, \* TRUE: a batch may end without booking anything (apply error, table unknown to the node)
          FixS15,       \* TRUE: when a batch is joined, the changesets it did not book are forgotten by the cache (repair of S15);
                        \* FALSE: the loop only logs such a batch (code as found)
          FixEmptySeen  \* FALSE: an empty changeset is suppressed whenever any chunk of its version is cached (code as found)

VARIABLES queue,     \* Seq of changesets
          bufCost,
          seen,      \* Seq of [a, v, seqs]: the IndexMap in insertion order
          inflight,  \* Seq of batches (Seq of changesets) handed to process_multiple_changes, not yet joined
          known,     \* [Actors -> SUBSET Vs]: versions applied or recorded as cleared (bookkeeping)
          part       \* [Actors \X Vs -> SUBSET (0..MaxSeq)]: buffered sequences of partially received versions
vars == <<queue, bufCost, seen, inflight, known, part>>

AllSeqs == 0..MaxSeq
Fulls == [k : {"full"}, a : Actors, v : Vs, lo : AllSeqs, hi : AllSeqs]
Changes == {c \in Fulls : c.lo <= c.hi} \cup [k : {"empty"}, a : Actors, v : Vs]
CSeqs(c) == IF c.k = "empty" THEN {} ELSE c.lo..c.hi
Cost(c) == IF c.k = "empty" THEN 1 ELSE Cardinality(CSeqs(c))
Complete(c) == c.k = "full" /\ c.lo = 0 /\ c.hi = MaxSeq

(* bookkeeping view *)
VersionKnown(a, v) == v \in known[a] \/ part[<<a, v>>] = AllSeqs
Held(c) == IF c.k = "empty" THEN VersionKnown(c.a, c.v)
           ELSE (c.v \in known[c.a] /\ part[<<c.a, c.v>>] = {}) \/ (part[<<c.a, c.v>>] # {} /\ CSeqs(c) \subseteq part[<<c.a, c.v>>])

SeenIdx(a, v) == {i \in 1..Len(seen) : seen[i].a = a /\ seen[i].v = v}
HasKey(a, v) == SeenIdx(a, v) # {}
SeenSeqs(a, v) == IF HasKey(a, v) THEN seen[CHOOSE i \in SeenIdx(a, v) : TRUE].seqs ELSE {}
Suppressed(c) == IF c.k = "full" THEN HasKey(c.a, c.v) /\ CSeqs(c) \subseteq SeenSeqs(c.a, c.v)
                 ELSE IF FixEmptySeen THEN HasKey(c.a, c.v) /\ SeenSeqs(c.a, c.v) = {}
                      ELSE HasKey(c.a, c.v)

RECURSIVE SumCost(_)
SumCost(s) == IF s = <<>> THEN 0 ELSE Cost(Head(s)) + SumCost(Tail(s))

SpawnEnabled == (bufCost >= Chunk \/ (queue # <<>> /\ inflight = <<>>)) /\ Len(inflight) < MaxInflight /\ queue # <<>>

RECURSIVE TakeN(_, _)
(* number of queue elements popped by the inner `while let Some(..) = queue.pop_front()` loop *)
TakeN(q, acc) == IF q = <<>> THEN 0 ELSE IF acc + Cost(Head(q)) >= Chunk THEN 1 ELSE 1 + TakeN(Tail(q), acc + Cost(Head(q)))

Init == /\ queue = <<>> /\ bufCost = 0 /\ seen = <<>> /\ inflight = <<>>
        /\ known = [a \in Actors |-> {}] /\ part = [x \in Actors \X Vs |-> {}]

(* remove / shrink the cache entry for (a, v) when a queued changeset d is dropped *)
Evict(sn, a, d) ==
    LET idx == {i \in 1..Len(sn) : sn[i].a = a /\ sn[i].v = d.v} IN
    IF idx = {} THEN sn
    ELSE LET i == CHOOSE i \in idx : TRUE IN
         IF d.k = "full" THEN [sn EXCEPT ![i].seqs = @ \ CSeqs(d)]
         ELSE \* swap_remove_entry: the last entry takes the removed entry's place
              IF i = Len(sn) THEN SubSeq(sn, 1, Len(sn) - 1)
              ELSE [j \in 1..(Len(sn) - 1) |-> IF j = i THEN sn[Len(sn)] ELSE sn[j]]
Remember(sn, c) ==
    LET idx == {i \in 1..Len(sn) : sn[i].a = c.a /\ sn[i].v = c.v} IN
    IF idx = {} THEN Append(sn, [a |-> c.a, v |-> c.v, seqs |-> CSeqs(c)])
    ELSE LET i == CHOOSE i \in idx : TRUE IN [sn EXCEPT ![i].seqs = @ \cup CSeqs(c)]

(* a changeset arrives on the channel *)
Enqueue(c) ==
    LET full == Len(queue) >= QLen
        d == Head(queue)
        q1 == IF full THEN Tail(queue) ELSE queue
        s1 == IF full THEN Evict(seen, IF FixS3 THEN d.a ELSE c.a, d) ELSE seen
    IN /\ queue' = Append(q1, c)
       /\ seen' = Remember(s1, c)
       /\ bufCost' = (IF full THEN bufCost - Cost(d) ELSE bufCost) + Cost(c)
       /\ UNCHANGED <<inflight, known, part>>
Recv(c) ==
    /\ ~SpawnEnabled
    /\ IF Suppressed(c) \/ Held(c) THEN UNCHANGED vars ELSE Enqueue(c)
(* the loop reads the bookkeeping and enqueues in two steps: a batch that is still in flight may commit the very      *)
(* version in between, so a changeset that is held by now is enqueued all the same (a harmless duplicate)             *)
InFlightTouches(c) == \E i \in 1..Len(inflight) : \E j \in 1..Len(inflight[i]) : inflight[i][j].a = c.a /\ inflight[i][j].v = c.v
RecvLate(c) ==
    /\ ~SpawnEnabled /\ ~Suppressed(c) /\ Held(c) /\ InFlightTouches(c)
    /\ Enqueue(c)

(* top of the loop: hand a batch to process_multiple_changes *)
Spawn ==
    /\ SpawnEnabled
    /\ LET n == TakeN(queue, 0) b == SubSeq(queue, 1, n) IN
       /\ inflight' = Append(inflight, b)
       /\ queue' = SubSeq(queue, n + 1, Len(queue))
       /\ bufCost' = bufCost - SumCost(b)
    /\ UNCHANGED <<seen, known, part>>

(* the wait interval fires *)
Tick ==
    /\ ~SpawnEnabled
    /\ IF bufCost < Chunk /\ queue # <<>> /\ Len(inflight) < MaxInflight
       THEN /\ inflight' = Append(inflight, queue) /\ queue' = <<>> /\ bufCost' = 0
       ELSE UNCHANGED <<inflight, queue, bufCost>>
    /\ seen' = IF Len(seen) > SeenMax THEN SubSeq(seen, Len(seen) - Keep + 1, Len(seen)) ELSE seen
    /\ UNCHANGED <<known, part>>

(* process_multiple_changes commits what it processed of one in-flight batch (one actor at a time in    *)
(* the code; the whole batch here - the bookkeeping of different actors is independent)                  *)
ApplyChange(st, c) ==
    IF c.k = "empty" THEN
        IF c.v \in st.known[c.a] \/ st.part[<<c.a, c.v>>] = AllSeqs THEN st
        ELSE [known |-> [st.known EXCEPT ![c.a] = @ \cup {c.v}], part |-> [st.part EXCEPT ![<<c.a, c.v>>] = {}]]
    ELSE IF (c.v \in st.known[c.a] /\ st.part[<<c.a, c.v>>] = {}) \/ (st.part[<<c.a, c.v>>] # {} /\ CSeqs(c) \subseteq st.part[<<c.a, c.v>>]) THEN st
    ELSE IF Complete(c) THEN [known |-> [st.known EXCEPT ![c.a] = @ \cup {c.v}], part |-> [st.part EXCEPT ![<<c.a, c.v>>] = {}]]
    ELSE [known |-> st.known, part |-> [st.part EXCEPT ![<<c.a, c.v>>] = @ \cup CSeqs(c)]]
RECURSIVE ApplyBatch(_, _)
ApplyBatch(st, b) == IF b = <<>> THEN st ELSE ApplyBatch(ApplyChange(st, Head(b)), Tail(b))

AllHeld(b) == \A i \in 1..Len(b) : Held(b[i])
Commit(i) ==
    /\ i \in 1..Len(inflight) /\ ~AllHeld(inflight[i])
    /\ LET st == ApplyBatch([known |-> known, part |-> part], inflight[i]) IN known' = st.known /\ part' = st.part
    /\ UNCHANGED <<queue, bufCost, seen, inflight>>
(* join_next returns for a batch whose work is done *)
Done(i) ==
    /\ ~SpawnEnabled
    /\ i \in 1..Len(inflight) /\ AllHeld(inflight[i])
    /\ inflight' = [j \in 1..(Len(inflight) - 1) |-> IF j < i THEN inflight[j] ELSE inflight[j + 1]]
    /\ UNCHANGED <<queue, bufCost, seen, known, part>>

(* process_multiple_changes ends without booking the batch (error, or changes it cannot apply).  Code as found: the  *)
(* loop only logs it and the cache entries of the batch stay (S15).  Repaired: the joined batch carries its          *)
(* changesets and the loop forgets every one the bookkeeping does not contain.                                       *)
RECURSIVE ForgetAll(_, _)
ForgetAll(sn, b) == IF b = <<>> THEN sn ELSE ForgetAll(Evict(sn, Head(b).a, Head(b)), Tail(b))
NotHeldOf(b) == SelectSeq(b, LAMBDA c : ~Held(c))
Fail(i) ==
    /\ ApplyMayFail /\ ~SpawnEnabled
    /\ i \in 1..Len(inflight) /\ ~AllHeld(inflight[i])
    /\ inflight' = [j \in 1..(Len(inflight) - 1) |-> IF j < i THEN inflight[j] ELSE inflight[j + 1]]
    /\ seen' = IF FixS15 THEN ForgetAll(seen, NotHeldOf(inflight[i])) ELSE seen
    /\ UNCHANGED <<queue, bufCost, known, part>>
(* the bookkeeping is read per changeset after the join; a changeset that another in-flight batch books in that very   *)
(* window is forgotten although it is held by the time the loop goes on (harmless: it can only be enqueued once more)   *)
OtherTouches(i, c) == \E k \in 1..Len(inflight) : k # i /\ \E j \in 1..Len(inflight[k]) : inflight[k][j].a = c.a /\ inflight[k][j].v = c.v
DoneLate(i, F) ==
    /\ FixS15 /\ ~SpawnEnabled
    /\ i \in 1..Len(inflight)
    /\ F # <<>>
    /\ (ApplyMayFail \/ AllHeld(inflight[i]))
    /\ \A k \in 1..Len(F) : (\E j \in 1..Len(inflight[i]) : inflight[i][j] = F[k]) /\ (Held(F[k]) => OtherTouches(i, F[k]))
    /\ \A j \in 1..Len(inflight[i]) : ~Held(inflight[i][j]) => \E k \in 1..Len(F) : F[k] = inflight[i][j]
    /\ inflight' = [j \in 1..(Len(inflight) - 1) |-> IF j < i THEN inflight[j] ELSE inflight[j + 1]]
    /\ seen' = ForgetAll(seen, F)
    /\ UNCHANGED <<queue, bufCost, known, part>>

Next == \/ \E c \in Changes : Recv(c) \/ RecvLate(c)
        \/ \E i \in 1..MaxInflight : Fail(i)
        \* (explored together with failing batches only: on its own it multiplies the states of the base instance)
        \/ /\ ApplyMayFail
           /\ \E i \in 1..Len(inflight) : \E S \in SUBSET {inflight[i][j] : j \in 1..Len(inflight[i])} :
               DoneLate(i, SelectSeq(inflight[i], LAMBDA c : c \in S))
        \/ Spawn \/ Tick
        \/ \E i \in 1..MaxInflight : Commit(i) \/ Done(i)
Spec == Init /\ [][Next]_vars
FairSpec == Spec /\ WF_vars(Spawn) /\ WF_vars(Tick) /\ \A i \in 1..MaxInflight : WF_vars(Commit(i)) /\ WF_vars(Done(i))

-----------------------------------------------------------------------------
(* C10 *)
Pending == {queue[i] : i \in 1..Len(queue)} \cup UNION {{inflight[j][i] : i \in 1..Len(inflight[j])} : j \in 1..Len(inflight)}
SeqCovered(a, v, s) == (v \in known[a] /\ part[<<a, v>>] = {}) \/ s \in part[<<a, v>>]
                       \/ \E c \in Pending : c.a = a /\ c.v = v /\ (c.k = "empty" \/ s \in CSeqs(c))
(* whatever the cache would suppress is held or still on its way to being processed *)
C10_CacheSoundSeqs == \A i \in 1..Len(seen) : \A s \in seen[i].seqs : SeqCovered(seen[i].a, seen[i].v, s)
C10_CacheSoundEmpty == \A c \in Changes : (c.k = "empty" /\ Suppressed(c)) =>
    \/ VersionKnown(c.a, c.v)
    \/ \E p \in Pending : p.a = c.a /\ p.v = c.v /\ (p.k = "empty" \/ Complete(p))
    \/ (part[<<c.a, c.v>>] \cup UNION {CSeqs(p) : p \in {q \in Pending : q.a = c.a /\ q.v = c.v}}) = AllSeqs
(* the node never claims to hold what it dropped: bookkeeping only grows through Commit *)
C10_CostOk == bufCost = SumCost(queue)
C10_QueueBound == Len(queue) <= QLen
(* liveness: a changeset that keeps being offered is eventually held *)
C10_Live(c) == ([]<><<Recv(c)>>_vars) => <>[]Held(c)
=============================================================================
