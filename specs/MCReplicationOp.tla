-------------------------- MODULE MCReplicationOp --------------------------
(* Same behaviours as Replication, with the last operation recorded in a history variable so that a    *)
(* counter-example can be executed on the real code.  Only used to extract counter-examples (the        *)
(* history variable multiplies states), never for the exhaustive runs.                                   *)
EXTENDS MCReplication
VARIABLE lastOp
NextOp == \/ \E n \in Nodes, ks \in KeySeqs : LocalTx(n, ks) /\ lastOp' = <<"LocalTx", [n |-> n, ks |-> ks]>>
          \/ \E m \in msgs, lo \in 0..MaxKeysPerTx, hi \in 0..MaxKeysPerTx : Cut(m, lo, hi) /\ lastOp' = <<"Cut", [m |-> m, lo |-> lo, hi |-> hi]>>
          \/ \E n \in Nodes : \E ms \in Batches : Deliver(n, ms) /\ lastOp' = <<"Deliver", [n |-> n, ms |-> ms]>>
          \/ \E n \in Nodes, a \in Nodes, v \in V : ApplyBuffered(n, a, v) /\ lastOp' = <<"ApplyBuffered", [n |-> n, a |-> a, v |-> v]>>
          \/ \E n \in Nodes, a \in Nodes, v \in V : ClearMeta(n, a, v) /\ lastOp' = <<"ClearMeta", [n |-> n, a |-> a, v |-> v]>>
          \/ \E s \in Nodes, c \in Nodes, a \in Nodes, need \in NeedUniverse : SyncServe(s, c, a, need) /\ lastOp' = <<"SyncServe", [s |-> s, c |-> c, a |-> a, need |-> need]>>
          \/ \E n \in Nodes : Restart(n) /\ lastOp' = <<"Restart", [n |-> n]>>
SpecOp == Init /\ lastOp = <<"init", [x |-> 0]>> /\ [][NextOp]_<<vars, lastOp>>
=============================================================================
