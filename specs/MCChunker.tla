----------------------------- MODULE MCChunker -----------------------------
EXTENDS Chunker, Json
(* one line per completed behaviour: the replay harness runs the real iterator on it *)
Export == done => PrintT("REPLAY " \o ToJson([input |-> input, start |-> start, last |-> last, lims |-> lims, out |-> out]))
=============================================================================
