---------------------------- MODULE MCSyncNeeds ----------------------------
EXTENDS SyncNeeds, Json
Export == PrintT("REPLAY " \o ToJson([ours |-> ours, theirs |-> theirs, isSelf |-> isSelf, out |-> Out]))
=============================================================================
