---------------------------- MODULE RestoreLock ----------------------------
(* `corrosion restore` over a live database file (crates/klukai-types/src/sqlite3_restore.rs: restore / lock_all)    *)
(* against reader connections of other processes that follow SQLite's file-locking protocol.                         *)
(*                                                                                                                    *)
(* Database = pages 1..2 of the main file, plus (WAL mode) frames in the -wal file that supersede pages, plus the      *)
(* wal-index header in the -shm file.  A reader connection keeps a page cache between transactions and decides at     *)
(* the start of each read transaction whether the cache is still valid: in WAL mode by comparing its private copy of   *)
(* the wal-index header with the shared one (after running recovery itself it always resets), in rollback mode by      *)
(* comparing the 16 "file version" bytes of page 1 (change counter, size, freelist).                                   *)
(* The restorer takes the locks in the order of lock_all, removes the journal, truncates the WAL, copies page by      *)
(* page, zeroes the wal-index header and exits (which drops its locks); a lock it cannot get in time aborts it.        *)
EXTENDS Naturals, FiniteSets, TLC

CONSTANTS Readers,
          Wal,          \* TRUE: the destination is in WAL mode, FALSE: rollback journal
          Quiescent,    \* TRUE: cleanly closed destination (no frames in the WAL, wal-index header as recovery leaves it)
          SameVers,     \* TRUE: old and new file have the same 16 file-version bytes (same change counter, size, freelist)
          TruncateWal, ZeroShm,     \* TRUE as in the code; FALSE drops the step (to show that the step is needed)
          LockedMarks,  \* the WAL read marks the restorer locks exclusively (the code: all of them)
          MaxTx         \* read transactions per reader

Pages == {1, 2}
Restorer == "restorer"
Procs == Readers \cup {Restorer}
ReadMarks == {"READa", "READb"}      \* two of SQLite's five read marks (READ0..READ4) suffice: a reader sits on one of them
LockNames == {"PENDING", "RESERVED", "SHARED", "DMS", "WRITE", "CKPT", "RECOVER"} \cup ReadMarks
NoCache == [p \in Pages |-> "none"]

VARIABLES file,       \* [Pages -> content]   "old" | "stale" (superseded by a WAL frame) | "new"
          vers,       \* file-version bytes of page 1: "vo" | "vn"
          walFile,    \* pages that have a frame in the -wal file
          shm,        \* wal-index header: "invalid" | "H0" (as recovery of an empty WAL leaves it) | "Hf" (frames indexed)
          shmFrames,  \* pages the wal-index maps to frames
          sh, ex,     \* shared holders / exclusive holder per lock byte
          rs,         \* restorer program counter
          rd          \* per reader: pc, ntx, snap, seen, cache, hdrCopy, versCopy
vars == <<file, vers, walFile, shm, shmFrames, sh, ex, rs, rd>>

CanRead(p, l) == ex[l] \in {"none", p}
CanWrite(p, l) == ex[l] \in {"none", p} /\ sh[l] \subseteq {p}
TakeRead(p, l) == /\ sh' = [sh EXCEPT ![l] = @ \cup {p}] /\ UNCHANGED ex
TakeWrite(p, l) == /\ ex' = [ex EXCEPT ![l] = p] /\ sh' = [sh EXCEPT ![l] = @ \ {p}]
ReleaseAll(p) == /\ sh' = [l \in LockNames |-> sh[l] \ {p}] /\ ex' = [l \in LockNames |-> IF ex[l] = p THEN "none" ELSE ex[l]]

Frames0 == IF Wal /\ ~Quiescent THEN {2} ELSE {}
Init == /\ file = [p \in Pages |-> IF p \in Frames0 THEN "stale" ELSE "old"]
        /\ vers = "vo"
        /\ walFile = Frames0
        /\ shm = IF ~Wal THEN "invalid" ELSE IF Quiescent THEN "H0" ELSE "Hf"
        /\ shmFrames = Frames0
        /\ sh = [l \in LockNames |-> {}] /\ ex = [l \in LockNames |-> "none"]
        /\ rs = "l_pending"
        /\ rd = [r \in Readers |-> [pc |-> "idle", ntx |-> 0, snap |-> {}, seen |-> {}, cache |-> NoCache, hdrCopy |-> "none", versCopy |-> "none"]]

-----------------------------------------------------------------------------
(* reader connections *)
HdrAfterRecovery == IF walFile = {} THEN "H0" ELSE "Hf"

(* WAL mode: the wal-index header is unusable: run recovery (needs the exclusive WAL locks), always resets the cache *)
WRecover(r) ==
    /\ Wal /\ rd[r].pc = "idle" /\ rd[r].ntx < MaxTx /\ shm = "invalid"
    /\ \A l \in {"WRITE", "CKPT", "RECOVER"} \cup ReadMarks : CanWrite(r, l)
    /\ shm' = HdrAfterRecovery /\ shmFrames' = walFile
    /\ rd' = [rd EXCEPT ![r].cache = NoCache, ![r].hdrCopy = HdrAfterRecovery]
    /\ UNCHANGED <<file, vers, walFile, sh, ex, rs>>
(* WAL mode: begin a read transaction: shared READ lock, snapshot of the indexed frames, cache kept iff header unchanged *)
WBegin(r) ==
    /\ Wal /\ rd[r].pc = "idle" /\ rd[r].ntx < MaxTx /\ shm # "invalid"
    /\ CanRead(r, "RECOVER")
    /\ \E m \in ReadMarks : CanRead(r, m) /\ TakeRead(r, m)
    /\ rd' = [rd EXCEPT ![r].pc = "reading", ![r].ntx = @ + 1, ![r].snap = shmFrames, ![r].seen = {},
                        ![r].cache = IF rd[r].hdrCopy = shm THEN @ ELSE NoCache,
                        ![r].hdrCopy = shm]
    /\ UNCHANGED <<file, vers, walFile, shm, shmFrames, rs>>
(* rollback mode: PENDING (shared, dropped at once) then SHARED; cache kept iff the file-version bytes are unchanged *)
QBegin(r) ==
    /\ ~Wal /\ rd[r].pc = "idle" /\ rd[r].ntx < MaxTx
    /\ CanRead(r, "PENDING") /\ CanRead(r, "SHARED")
    /\ TakeRead(r, "SHARED")
    /\ rd' = [rd EXCEPT ![r].pc = "reading", ![r].ntx = @ + 1, ![r].snap = {}, ![r].seen = {},
                        ![r].cache = IF rd[r].versCopy = vers THEN @ ELSE NoCache, ![r].versCopy = vers]
    /\ UNCHANGED <<file, vers, walFile, shm, shmFrames, rs>>
ReadPage(r, p) ==
    /\ rd[r].pc = "reading"
    /\ LET c == IF rd[r].cache[p] # "none" THEN rd[r].cache[p]
                ELSE IF p \in rd[r].snap THEN (IF p \in walFile THEN "old" ELSE "garbage")
                ELSE file[p]
       IN rd' = [rd EXCEPT ![r].seen = @ \cup {c}, ![r].cache[p] = c]
    /\ UNCHANGED <<file, vers, walFile, shm, shmFrames, sh, ex, rs>>
EndRead(r) ==
    /\ rd[r].pc = "reading"
    /\ ReleaseAll(r)
    /\ rd' = [rd EXCEPT ![r].pc = "idle"]
    /\ UNCHANGED <<file, vers, walFile, shm, shmFrames, rs>>

-----------------------------------------------------------------------------
(* the restorer: lock_all, then restore *)
Step(from, to, lockact) == /\ rs = from /\ lockact /\ rs' = to /\ UNCHANGED <<file, vers, walFile, shm, shmFrames, rd>>
RLock ==
    \/ Step("l_pending", "l_shared", CanRead(Restorer, "PENDING") /\ TakeRead(Restorer, "PENDING"))
    \/ Step("l_shared", "u_pending", CanRead(Restorer, "SHARED") /\ TakeRead(Restorer, "SHARED"))
    \/ Step("u_pending", IF Wal THEN "w_dms" ELSE "q_reserved", sh' = [sh EXCEPT !["PENDING"] = @ \ {Restorer}] /\ UNCHANGED ex)
    \* rollback journal mode
    \/ Step("q_reserved", "q_pending", CanWrite(Restorer, "RESERVED") /\ TakeWrite(Restorer, "RESERVED"))
    \/ Step("q_pending", "q_shared", CanWrite(Restorer, "PENDING") /\ TakeWrite(Restorer, "PENDING"))
    \/ Step("q_shared", "rm_journal", CanWrite(Restorer, "SHARED") /\ TakeWrite(Restorer, "SHARED"))
    \* WAL mode
    \/ Step("w_dms", "w_write", CanRead(Restorer, "DMS") /\ TakeRead(Restorer, "DMS"))
    \/ Step("w_write", "w_ckpt", CanWrite(Restorer, "WRITE") /\ TakeWrite(Restorer, "WRITE"))
    \/ Step("w_ckpt", "w_recover", CanWrite(Restorer, "CKPT") /\ TakeWrite(Restorer, "CKPT"))
    \/ Step("w_recover", "w_read", CanWrite(Restorer, "RECOVER") /\ TakeWrite(Restorer, "RECOVER"))
    \/ Step("w_read", "rm_journal", /\ \A m \in LockedMarks : CanWrite(Restorer, m)
                                    /\ ex' = [l \in LockNames |-> IF l \in LockedMarks THEN Restorer ELSE ex[l]]
                                    /\ sh' = [l \in LockNames |-> IF l \in LockedMarks THEN sh[l] \ {Restorer} ELSE sh[l]])
LockSteps == {"l_pending", "l_shared", "q_reserved", "q_pending", "q_shared", "w_dms", "w_write", "w_ckpt", "w_recover", "w_read"}
(* a lock that is not granted within the timeout: the command fails, the process exits *)
Wanted == [s \in LockSteps |-> CASE s = "l_pending" -> <<"PENDING", "r">> [] s = "l_shared" -> <<"SHARED", "r">> [] s = "q_reserved" -> <<"RESERVED", "w">>
                                  [] s = "q_pending" -> <<"PENDING", "w">> [] s = "q_shared" -> <<"SHARED", "w">> [] s = "w_dms" -> <<"DMS", "r">>
                                  [] s = "w_write" -> <<"WRITE", "w">> [] s = "w_ckpt" -> <<"CKPT", "w">> [] s = "w_recover" -> <<"RECOVER", "w">>
                                  [] OTHER -> <<"marks", "w">>]
Blocked == rs \in LockSteps /\ LET w == Wanted[rs] IN
              IF w[1] = "marks" THEN \E m \in LockedMarks : ~CanWrite(Restorer, m)
              ELSE IF w[2] = "r" THEN ~CanRead(Restorer, w[1]) ELSE ~CanWrite(Restorer, w[1])
RAbort == /\ Blocked
          /\ rs' = "aborted" /\ ReleaseAll(Restorer)
          /\ UNCHANGED <<file, vers, walFile, shm, shmFrames, rd>>
RWork ==
    \/ /\ rs = "rm_journal" /\ rs' = (IF Wal THEN "trunc_wal" ELSE "copy1") /\ UNCHANGED <<file, vers, walFile, shm, shmFrames, sh, ex, rd>>
    \/ /\ rs = "trunc_wal" /\ rs' = "copy1" /\ walFile' = (IF TruncateWal THEN {} ELSE walFile) /\ UNCHANGED <<file, vers, shm, shmFrames, sh, ex, rd>>
    \/ /\ rs = "copy1" /\ rs' = "copy2" /\ file' = [file EXCEPT ![1] = "new"] /\ vers' = (IF SameVers THEN vers ELSE "vn")
       /\ UNCHANGED <<walFile, shm, shmFrames, sh, ex, rd>>
    \/ /\ rs = "copy2" /\ rs' = (IF Wal THEN "zero_shm" ELSE "exit") /\ file' = [file EXCEPT ![2] = "new"] /\ UNCHANGED <<vers, walFile, shm, shmFrames, sh, ex, rd>>
    \/ /\ rs = "zero_shm" /\ rs' = "exit" /\ shm' = (IF ZeroShm THEN "invalid" ELSE shm) /\ UNCHANGED <<file, vers, walFile, shmFrames, sh, ex, rd>>
    \/ /\ rs = "exit" /\ rs' = "done" /\ ReleaseAll(Restorer) /\ UNCHANGED <<file, vers, walFile, shm, shmFrames, rd>>

Next == RLock \/ RAbort \/ RWork
        \/ \E r \in Readers : WRecover(r) \/ WBegin(r) \/ QBegin(r) \/ EndRead(r) \/ \E p \in Pages : ReadPage(r, p)
Spec == Init /\ [][Next]_vars

-----------------------------------------------------------------------------
(* C19 (ii): every read that succeeds shows entirely the old or entirely the new database *)
C19_ReadsWhole == \A r \in Readers : rd[r].seen \subseteq {"old"} \/ rd[r].seen \subseteq {"new"}
(* ... the same for readers that opened their connection only after the restore began (no cache from before) *)
C19_FreshReadsWhole == \A r \in Readers : rd[r].ntx = 1 => (rd[r].seen \subseteq {"old"} \/ rd[r].seen \subseteq {"new"})
(* a failed restore leaves the destination untouched *)
C19_AbortUntouched == rs = "aborted" => /\ \A p \in Pages : file[p] # "new"
                                        /\ walFile = Frames0 /\ vers = "vo"
(* nobody is inside a read transaction while the bytes are being replaced *)
C19_CopyExclusive == rs \in {"trunc_wal", "copy1", "copy2", "zero_shm", "exit"} => \A r \in Readers : rd[r].pc = "idle"
(* the restorer cannot block for ever: it finishes or gives up *)
C19_Terminates == <>(rs \in {"done", "aborted"})
FairSpec == Spec /\ WF_vars(RLock) /\ WF_vars(RAbort) /\ WF_vars(RWork) /\ \A r \in Readers : WF_vars(EndRead(r))
=============================================================================
