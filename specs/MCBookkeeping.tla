--------------------------- MODULE MCBookkeeping ---------------------------
(* Model-checking / edge-export wrapper for Bookkeeping (TLC only). *)
EXTENDS Bookkeeping, Json

Emit(op) == PrintT("EDGE " \o ToJson([from |-> State, op |-> op, to |-> State',
                                       fromGhost |-> [merged |-> merged], toGhost |-> [merged |-> merged']]))

EdgeNext == \/ \E b \in Batches : Deliver(b) /\ Emit([op |-> "deliver", batch |-> b])
            \/ \E v \in V : ApplyBuffered(v) /\ Emit([op |-> "apply", v |-> v])
            \/ \E v \in V : ClearMeta(v) /\ Emit([op |-> "clear", v |-> v])
            \/ Restart /\ Emit([op |-> "restart"])
EdgeSpec == Init /\ [][EdgeNext]_vars
=============================================================================
