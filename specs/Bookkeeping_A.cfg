SPECIFICATION Spec
CONSTANTS
  MaxV = 4
  MaxS = 0
  MaxBatch = 2
  Lasts = {0}
  FullStart = 0
  KF_S2 = TRUE
INVARIANTS
  TypeOK
  C02_HeldIsDurable
  C02_NeedExact
  C02_Disjoint
  C02_PartialExact
  C02_RowsMatch
  C02_ReloadEq
  C02_NoErr
