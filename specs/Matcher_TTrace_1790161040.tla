---- MODULE Matcher_TTrace_1790161040 ----
EXTENDS Sequences, TLCExt, Matcher, Toolbox, Naturals, TLC

_expression ==
    LET Matcher_TEExpression == INSTANCE Matcher_TEExpression
    IN Matcher_TEExpression!expression
----

_trace ==
    LET Matcher_TETrace == INSTANCE Matcher_TETrace
    IN Matcher_TETrace!trace
----

_inv ==
    ~(
        TLCGet("level") = Len(_TETrace)
        /\
        A = (<<9, 0>>)
        /\
        view = ({})
        /\
        B = (<<[aid |-> 0, y |-> 0], [aid |-> 0, y |-> 0]>>)
        /\
        ntx = (2)
        /\
        pending = ([ta |-> {}, tb |-> {}])
        /\
        events = (2)
    )
----

_init ==
    /\ pending = _TETrace[1].pending
    /\ view = _TETrace[1].view
    /\ A = _TETrace[1].A
    /\ B = _TETrace[1].B
    /\ events = _TETrace[1].events
    /\ ntx = _TETrace[1].ntx
----

_next ==
    /\ \E i,j \in DOMAIN _TETrace:
        /\ \/ /\ j = i + 1
              /\ i = TLCGet("level")
        /\ pending  = _TETrace[i].pending
        /\ pending' = _TETrace[j].pending
        /\ view  = _TETrace[i].view
        /\ view' = _TETrace[j].view
        /\ A  = _TETrace[i].A
        /\ A' = _TETrace[j].A
        /\ B  = _TETrace[i].B
        /\ B' = _TETrace[j].B
        /\ events  = _TETrace[i].events
        /\ events' = _TETrace[j].events
        /\ ntx  = _TETrace[i].ntx
        /\ ntx' = _TETrace[j].ntx

\* Uncomment the ASSUME below to write the states of the error trace
\* to the given file in Json format. Note that you can pass any tuple
\* to `JsonSerialize`. For example, a sub-sequence of _TETrace.
    \* ASSUME
    \*     LET J == INSTANCE Json
    \*         IN J!JsonSerialize("Matcher_TTrace_1790161040.json", _TETrace)

=============================================================================

 Note that you can extract this module `Matcher_TEExpression`
  to a dedicated file to reuse `expression` (the module in the 
  dedicated `Matcher_TEExpression.tla` file takes precedence 
  over the module `Matcher_TEExpression` below).

---- MODULE Matcher_TEExpression ----
EXTENDS Sequences, TLCExt, Matcher, Toolbox, Naturals, TLC

expression == 
    [
        \* To hide variables of the `Matcher` spec from the error trace,
        \* remove the variables below.  The trace will be written in the order
        \* of the fields of this record.
        pending |-> pending
        ,view |-> view
        ,A |-> A
        ,B |-> B
        ,events |-> events
        ,ntx |-> ntx
        
        \* Put additional constant-, state-, and action-level expressions here:
        \* ,_stateNumber |-> _TEPosition
        \* ,_pendingUnchanged |-> pending = pending'
        
        \* Format the `pending` variable as Json value.
        \* ,_pendingJson |->
        \*     LET J == INSTANCE Json
        \*     IN J!ToJson(pending)
        
        \* Lastly, you may build expressions over arbitrary sets of states by
        \* leveraging the _TETrace operator.  For example, this is how to
        \* count the number of times a spec variable changed up to the current
        \* state in the trace.
        \* ,_pendingModCount |->
        \*     LET F[s \in DOMAIN _TETrace] ==
        \*         IF s = 1 THEN 0
        \*         ELSE IF _TETrace[s].pending # _TETrace[s-1].pending
        \*             THEN 1 + F[s-1] ELSE F[s-1]
        \*     IN F[_TEPosition - 1]
    ]

=============================================================================



Parsing and semantic processing can take forever if the trace below is long.
 In this case, it is advised to uncomment the module below to deserialize the
 trace from a generated binary file.

\*
\*---- MODULE Matcher_TETrace ----
\*EXTENDS IOUtils, Matcher, TLC
\*
\*trace == IODeserialize("Matcher_TTrace_1790161040.bin", TRUE)
\*
\*=============================================================================
\*

---- MODULE Matcher_TETrace ----
EXTENDS Matcher, TLC

trace == 
    <<
    ([A |-> <<0, 0>>,view |-> {},B |-> <<[aid |-> 0, y |-> 0], [aid |-> 0, y |-> 0]>>,ntx |-> 0,pending |-> [ta |-> {}, tb |-> {}],events |-> 0]),
    ([A |-> <<1, 0>>,view |-> {},B |-> <<[aid |-> 0, y |-> 0], [aid |-> 0, y |-> 0]>>,ntx |-> 1,pending |-> [ta |-> {1}, tb |-> {}],events |-> 0]),
    ([A |-> <<1, 0>>,view |-> {[y |-> 0, a |-> 1, b |-> 0, x |-> 1]},B |-> <<[aid |-> 0, y |-> 0], [aid |-> 0, y |-> 0]>>,ntx |-> 1,pending |-> [ta |-> {}, tb |-> {}],events |-> 1]),
    ([A |-> <<9, 0>>,view |-> {[y |-> 0, a |-> 1, b |-> 0, x |-> 1]},B |-> <<[aid |-> 0, y |-> 0], [aid |-> 0, y |-> 0]>>,ntx |-> 2,pending |-> [ta |-> {1}, tb |-> {}],events |-> 1]),
    ([A |-> <<9, 0>>,view |-> {},B |-> <<[aid |-> 0, y |-> 0], [aid |-> 0, y |-> 0]>>,ntx |-> 2,pending |-> [ta |-> {}, tb |-> {}],events |-> 2])
    >>
----


=============================================================================

---- CONFIG Matcher_TTrace_1790161040 ----
CONSTANTS
    Ids = { 1 , 2 }
    Vals = { 1 , 2 }
    Shape = "plain"
    MaxTx = 3
    NullSafe = FALSE

INVARIANT
    _inv

CHECK_DEADLOCK
    \* CHECK_DEADLOCK off because of PROPERTY or INVARIANT above.
    FALSE

INIT
    _init

NEXT
    _next

CONSTANT
    _TETrace <- _trace

ALIAS
    _expression
=============================================================================
\* Generated on Wed Sep 23 10:58:28 UTC 2026