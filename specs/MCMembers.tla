----------------------------- MODULE MCMembers -----------------------------
EXTENDS Members, Json
P == {1, 2}
T == {1, 2, 3}
A == {1, 2, 3, 4}
C == {0, 1}
(* peer 1 moves a1 -> a2 -> a1 and changes cluster at ts 3; peer 2 keeps a3 over a renewal then moves to a4 *)
MCAddrOf == (<<1, 1>> :> 1) @@ (<<1, 2>> :> 2) @@ (<<1, 3>> :> 1) @@ (<<2, 1>> :> 3) @@ (<<2, 2>> :> 3) @@ (<<2, 3>> :> 4)
MCClusterOf == (<<1, 1>> :> 0) @@ (<<1, 2>> :> 0) @@ (<<1, 3>> :> 1) @@ (<<2, 1>> :> 0) @@ (<<2, 2>> :> 1) @@ (<<2, 3>> :> 1)
Emit(op) == PrintT("EDGE " \o ToJson([from |-> State, op |-> op, to |-> State', fromGhost |-> Ghost0, toGhost |-> Ghost0']))
EdgeNext == \/ \E p \in Peers, t \in Ts : Up(p, t) /\ Emit([op |-> "up", p |-> p, t |-> t, addr |-> AddrOf[<<p, t>>], cluster |-> ClusterOf[<<p, t>>]])
            \/ \E p \in Peers, t \in Ts : Down(p, t) /\ Emit([op |-> "down", p |-> p, t |-> t, addr |-> AddrOf[<<p, t>>], cluster |-> ClusterOf[<<p, t>>]])
            \/ \E a \in RttAddrs, ms \in RttVals : Rtt(a, ms) /\ Emit([op |-> "rtt", a |-> a, ms |-> ms])
EdgeSpec == Init /\ [][EdgeNext]_vars
=============================================================================
