//! Cluster simulator: N real agents created with `setup()` whose autonomous loops are not started.
//! The harness owns the channels (rx_bcast, rx_apply, rx_clear_buf), so it is the network and the
//! scheduler.  Every step is one call into the real code (api_v1_transactions,
//! process_multiple_changes, process_fully_buffered_changes, clear_buffered_meta_loop, process_sync /
//! handle_need, start_with_config for a restart) and produces one event carrying the projected
//! abstract state of the node it touched.  The events are checked by TLC against
//! specs/Replication.tla (specs/trace/TraceReplication.tla).
use std::collections::{BTreeMap, BTreeSet};
use std::time::{Duration, Instant};

use axum::Extension;
use klukai_agent::agent::process_multiple_changes;
use klukai_agent::agent::start_with_config;
use klukai_agent::agent::util::{clear_buffered_meta_loop, process_fully_buffered_changes};
use klukai_agent::api::peer::verif_process_sync;
use klukai_agent::api::public::{TimeoutParams, api_v1_transactions};
use klukai_types::actor::ActorId;
use klukai_types::agent::{Agent, Bookie};
use klukai_types::api::{ExecResult, SqliteParam, Statement};
use klukai_types::base::{CrsqlDbVersion, CrsqlSeq};
use klukai_types::broadcast::{BroadcastInput, BroadcastV1, ChangeV1, Changeset};
use klukai_types::channel::{CorroSender, bounded};
use klukai_types::pubsub::unpack_columns;
use klukai_types::sync::{SyncMessage, SyncMessageV1, SyncNeedV1, generate_sync};
use rand::rngs::SmallRng;
use rand::{Rng, SeedableRng};
use serde_json::{Value, json};

use crate::common::*;

pub struct Msg {
    pub id: usize,
    pub cv: ChangeV1,
    pub abs: Value,
}

pub struct SimNode {
    pub agent: Agent,
    pub bookie: Bookie,
    pub node: Option<Node>, // None once restarted through start_with_config (autonomous)
    pub auto: bool,
    pub pend_apply: BTreeSet<(usize, u64)>,
    pub pend_clear: BTreeSet<(usize, u64)>,
    pub tx_clear: Option<CorroSender<(ActorId, std::ops::RangeInclusive<CrsqlDbVersion>)>>,
    pub dir: std::path::PathBuf,
    pub generation: u32,
}

pub struct Sim {
    pub nodes: Vec<SimNode>,
    pub ids: Vec<ActorId>,
    pub net: Vec<Msg>,
    pub events: tokio::sync::mpsc::UnboundedReceiver<Value>,
    pub step: u64,
    pub out: Vec<Value>,
    pub nkeys: i64,
}

fn pk_to_int(pk: &[u8]) -> i64 {
    match unpack_columns(pk) {
        Ok(cols) => cols.first().and_then(|c| c.as_integer()).unwrap_or(-1),
        Err(_) => -1,
    }
}

impl Sim {
    pub async fn new(n: usize, nkeys: i64) -> eyre::Result<Sim> {
        let events = install_sink();
        let mut nodes = vec![];
        let mut ids = vec![];
        for _ in 0..n {
            let node = make_node(SCHEMA).await?;
            let (tx_clear, rx_clear) = bounded(64, "vh_clear");
            tokio::spawn(clear_buffered_meta_loop(node.agent.clone(), rx_clear));
            ids.push(node.agent.actor_id());
            nodes.push(SimNode {
                agent: node.agent.clone(),
                bookie: node.bookie.clone(),
                dir: node.dir.clone(),
                node: Some(node),
                auto: false,
                pend_apply: BTreeSet::new(),
                pend_clear: BTreeSet::new(),
                tx_clear: Some(tx_clear),
                generation: 0,
            });
        }
        Ok(Sim { nodes, ids, net: vec![], events, step: 0, out: vec![], nkeys })
    }

    pub fn idx_of(&self, a: &ActorId) -> usize {
        self.ids.iter().position(|x| x == a).map(|i| i + 1).unwrap_or(0)
    }

    /// abstract description of a changeset
    pub fn abs_msg(&self, id: usize, cv: &ChangeV1) -> Value {
        let a = self.idx_of(&cv.actor_id);
        match &cv.changeset {
            Changeset::Empty { versions, .. } => json!({"id": id, "k": "empty", "a": a, "lo": versions.start().0, "hi": versions.end().0}),
            Changeset::Full { version, changes, seqs, last_seq, .. } => {
                let chs: Vec<Value> = changes
                    .iter()
                    .map(|c| json!({"seq": c.seq.0, "key": pk_to_int(&c.pk), "cid": c.cid.as_str(), "cv": c.col_version, "cl": c.cl, "val": val_num(&c.val), "site": self.idx_of(&ActorId::from_bytes(c.site_id)), "dbv": c.db_version.0}))
                    .collect();
                json!({"id": id, "k": "full", "a": a, "v": version.0, "lo": seqs.start().0, "hi": seqs.end().0, "last": last_seq.0, "chs": chs})
            }
            Changeset::EmptySet { .. } => json!({"id": id, "k": "emptyset", "a": a}),
        }
    }

    fn push_msg(&mut self, cv: ChangeV1) -> Value {
        let id = self.net.len() + 1;
        let abs = self.abs_msg(id, &cv);
        self.net.push(Msg { id, cv, abs: abs.clone() });
        abs
    }

    fn drain_triggers(&mut self, i: usize) {
        let ids = self.ids.clone();
        let n = &mut self.nodes[i];
        if let Some(node) = n.node.as_mut() {
            while let Ok((a, v)) = node.opts.rx_apply.try_recv() {
                let ai = ids.iter().position(|x| *x == a).map(|p| p + 1).unwrap_or(0);
                n.pend_apply.insert((ai, v.0));
            }
            while let Ok((a, vs)) = node.opts.rx_clear_buf.try_recv() {
                let ai = ids.iter().position(|x| *x == a).map(|p| p + 1).unwrap_or(0);
                for v in vs.start().0..=vs.end().0 {
                    n.pend_clear.insert((ai, v));
                }
            }
        }
    }

    /// broadcast chunks produced by local transactions of node i
    async fn drain_bcast(&mut self, i: usize, expect_some: bool) -> Vec<ChangeV1> {
        let mut out = vec![];
        let deadline = Instant::now() + Duration::from_millis(if expect_some { 3000 } else { 30 });
        loop {
            let mut got = false;
            if let Some(node) = self.nodes[i].node.as_mut() {
                while let Ok(b) = node.opts.rx_bcast.try_recv() {
                    let (BroadcastInput::AddBroadcast(BroadcastV1::Change(cv)) | BroadcastInput::Rebroadcast(BroadcastV1::Change(cv))) = b;
                    out.push(cv);
                    got = true;
                }
            }
            // a version's last chunk has seqs.end == last_seq
            let complete = out.last().map(|cv| cv.changeset.is_complete() || cv.changeset.seqs().map(|s| Some(*s.end()) == cv.changeset.last_seq()).unwrap_or(true)).unwrap_or(false);
            if (expect_some && complete) || Instant::now() > deadline {
                break;
            }
            if !got {
                sleep_ms(1).await;
            }
        }
        out
    }

    pub async fn project(&mut self, i: usize) -> eyre::Result<Value> {
        self.drain_triggers(i);
        let n = &self.nodes[i];
        let conn = n.agent.pool().read().await?;
        // cells
        let mut cells: Vec<Value> = vec![];
        {
            let mut st = conn.prepare_cached(r#"SELECT "table", pk, cid, val, col_version, db_version, site_id, cl, seq FROM crsql_changes"#)?;
            let mut rows = st.query([])?;
            while let Some(r) = rows.next()? {
                let table: String = r.get(0)?;
                let pk: Vec<u8> = r.get(1)?;
                let cid: String = r.get(2)?;
                let val: klukai_types::api::SqliteValue = r.get(3)?;
                let site: ActorId = r.get(6)?;
                cells.push(json!({"t": table, "key": pk_to_int(&pk), "cid": cid, "val": val_num(&val), "raw": val_raw(&val), "cv": r.get::<_, i64>(4)?, "dbv": r.get::<_, i64>(5)?, "site": self.idx_of(&site), "cl": r.get::<_, i64>(7)?, "seq": r.get::<_, i64>(8)?}));
            }
        }
        cells.sort_by_key(|c| (c["t"].as_str().unwrap_or("").to_string(), c["key"].as_i64(), c["cid"].as_str().unwrap_or("").to_string()));
        // the table itself
        let mut rows_t: Vec<Value> = vec![];
        {
            let mut st = conn.prepare_cached("SELECT id, text FROM tests ORDER BY id")?;
            let mut rows = st.query([])?;
            while let Some(r) = rows.next()? {
                let t: String = r.get(1)?;
                rows_t.push(json!([r.get::<_, i64>(0)?, t.parse::<i64>().unwrap_or(-1), t]));
            }
        }
        let mut book = vec![];
        for (ai, a) in self.ids.iter().enumerate() {
            if ai == i {
                continue;
            }
            let booked = { n.bookie.read::<&str, _>("vh", None).await.get(a).cloned() };
            let mut b = match booked {
                Some(b) => {
                    let r = b.read::<&str, _>("vh", None).await;
                    proj_booked(&r)
                }
                None => json!({"max": 0, "needed": [], "partials": []}),
            };
            merge(&mut b, proj_rows(&conn, *a)?);
            merge(&mut b, json!({"a": ai + 1}));
            book.push(b);
        }
        let own = {
            let r = n.agent.booked().read::<&str, _>("vh", None).await;
            let dbv: i64 = conn.query_row("SELECT crsql_db_version()", [], |r| r.get(0))?;
            json!({"max": r.last().map(|v| v.0).unwrap_or(0), "needed": runs_u64(r.needed().iter().map(|x| x.start().0..=x.end().0)), "dbv": dbv})
        };
        Ok(json!({
            "cells": cells, "rows": rows_t, "book": book, "own": own,
            "pendApply": n.pend_apply.iter().map(|(a, v)| json!([a, v])).collect::<Vec<_>>(),
            "pendClear": n.pend_clear.iter().map(|(a, v)| json!([a, v])).collect::<Vec<_>>(),
            "auto": n.auto,
        }))
    }

    fn emit(&mut self, op: Value, node: usize, post: Value, extra: Value) {
        self.step += 1;
        let mut ev = json!({"i": self.step, "op": op, "n": node + 1, "post": post});
        merge(&mut ev, extra);
        self.out.push(ev);
    }

    /// wait until the asynchronously sent triggers that the covered partials imply have arrived
    async fn settle_triggers(&mut self, i: usize) -> eyre::Result<()> {
        let deadline = Instant::now() + Duration::from_millis(1500);
        loop {
            self.drain_triggers(i);
            // expected: every covered, unapplied partial of the live bookkeeping has a trigger
            let mut missing = false;
            {
                let n = &self.nodes[i];
                for (ai, a) in self.ids.iter().enumerate() {
                    if ai == i {
                        continue;
                    }
                    let booked = { n.bookie.read::<&str, _>("vh", None).await.get(a).cloned() };
                    if let Some(b) = booked {
                        let r = b.read::<&str, _>("vh", None).await;
                        for (v, p) in r.partials.iter() {
                            if p.seqs.gaps(&(CrsqlSeq(0)..=p.last_seq)).count() == 0 && !n.pend_apply.contains(&(ai + 1, v.0)) {
                                // either applied already (rows cleared later) or trigger still in flight
                                let conn = n.agent.pool().read().await?;
                                let has_rows: bool = conn.query_row(
                                    "SELECT EXISTS(SELECT 1 FROM __corro_seq_bookkeeping WHERE site_id = ? AND db_version = ?)",
                                    rusqlite::params![a, v],
                                    |r| r.get(0),
                                )?;
                                let in_clear = n.pend_clear.contains(&(ai + 1, v.0));
                                if has_rows && !in_clear {
                                    missing = true;
                                }
                            }
                        }
                    }
                }
            }
            if !missing || Instant::now() > deadline || self.nodes[i].auto {
                break;
            }
            sleep_ms(1).await;
        }
        Ok(())
    }

    pub async fn op_tx(&mut self, i: usize, keys: &[i64], fail: &str) -> eyre::Result<()> {
        let own_before = { self.nodes[i].agent.booked().read::<&str, _>("vh", None).await.last().map(|v| v.0).unwrap_or(0) };
        let val = format!("{:06}", (i as u64 + 1) * 1000 + own_before + 1);
        // a write that is overwritten later in the same transaction stores a throw-away value (writing the
        // final value twice would be a no-op for cr-sqlite and consume no sequence number)
        let mut stmts: Vec<Statement> = keys
            .iter()
            .enumerate()
            .map(|(pos, k)| {
                let again = keys[pos + 1..].contains(k);
                let text = if again { format!("tmp{pos}") } else { val.clone() };
                Statement::WithParams("INSERT INTO tests (id, text) VALUES (?, ?) ON CONFLICT (id) DO UPDATE SET text = excluded.text".into(), vec![SqliteParam::Integer(*k), SqliteParam::Text(text.into())])
            })
            .collect();
        match fail {
            "" => {}
            "constraint" => stmts.push(Statement::Simple("INSERT INTO tests (id, text) VALUES (77, NULL)".into())),
            "syntax" => stmts.push(Statement::Simple("INSRT INTO tests VALUES (1)".into())),
            "params" => stmts.push(Statement::WithParams("INSERT INTO tests (id, text) VALUES (?, ?)".into(), vec![SqliteParam::Integer(78)])),
            "first" => stmts.insert(0, Statement::Simple("INSERT INTO nosuchtable VALUES (1)".into())),
            "noop" => {
                stmts = vec![Statement::Simple("UPDATE tests SET text = text WHERE id = -5".into())];
            }
            other => eyre::bail!("unknown failure kind {other}"),
        }
        let (status, body) = api_v1_transactions(Extension(self.nodes[i].agent.clone()), axum::extract::Query(TimeoutParams { timeout: None }), axum::Json(stmts)).await;
        let version = body.0.version;
        let ok = status == http::StatusCode::OK && !body.0.results.iter().any(|r| matches!(r, ExecResult::Error { .. }));
        let chunks = self.drain_bcast(i, ok && version.is_some()).await;
        let mut created = vec![];
        for cv in chunks {
            created.push(self.push_msg(cv));
        }
        let post = self.project(i).await?;
        self.emit(json!({"op": "tx", "keys": keys, "fail": fail}), i, post, json!({"ok": ok, "version": version.map(|v| v as u64).unwrap_or(0), "status": status.as_u16(), "created": created}));
        Ok(())
    }

    pub async fn op_cut(&mut self, m: usize, lo: u64, hi: u64) -> eyre::Result<()> {
        let src = self.net[m - 1].cv.clone();
        if let Changeset::Full { version, changes, last_seq, ts, .. } = src.changeset {
            let chs = changes.into_iter().filter(|c| c.seq.0 >= lo && c.seq.0 <= hi).collect();
            let cv = ChangeV1 { actor_id: src.actor_id, changeset: Changeset::Full { version, changes: chs, seqs: CrsqlSeq(lo)..=CrsqlSeq(hi), last_seq, ts } };
            let abs = self.push_msg(cv);
            self.step += 1;
            self.out.push(json!({"i": self.step, "op": {"op": "cut", "m": m, "lo": lo, "hi": hi}, "n": 0, "created": [abs]}));
        }
        Ok(())
    }

    pub async fn op_deliver(&mut self, i: usize, batch: &[usize]) -> eyre::Result<()> {
        let msgs: Vec<ChangeV1> = batch.iter().map(|m| self.net[m - 1].cv.clone()).collect();
        let res = process_multiple_changes(self.nodes[i].agent.clone(), self.nodes[i].bookie.clone(), with_src(msgs), Duration::from_secs(30)).await;
        let err = res.err().map(|e| e.to_string()).unwrap_or_default();
        self.settle_triggers(i).await?;
        if self.nodes[i].auto {
            self.settle_auto(i).await?;
        }
        let post = self.project(i).await?;
        self.emit(json!({"op": "deliver", "batch": batch}), i, post, json!({"err": err}));
        Ok(())
    }

    pub async fn op_apply(&mut self, i: usize, a: usize, v: u64) -> eyre::Result<()> {
        self.drain_triggers(i);
        self.nodes[i].pend_apply.remove(&(a, v));
        let res = process_fully_buffered_changes(&self.nodes[i].agent, &self.nodes[i].bookie, self.ids[a - 1], CrsqlDbVersion(v), Duration::from_secs(30)).await;
        let err = res.as_ref().err().map(|e| e.to_string()).unwrap_or_default();
        sleep_ms(2).await;
        let post = self.project(i).await?;
        self.emit(json!({"op": "apply", "a": a, "v": v}), i, post, json!({"err": err, "applied": res.ok().unwrap_or(false)}));
        Ok(())
    }

    pub async fn op_clear(&mut self, i: usize, a: usize, v: u64) -> eyre::Result<()> {
        self.drain_triggers(i);
        self.nodes[i].pend_clear.remove(&(a, v));
        while self.events.try_recv().is_ok() {}
        let me = self.ids[i];
        let actor = self.ids[a - 1];
        if let Some(tx) = self.nodes[i].tx_clear.as_ref() {
            tx.send((actor, CrsqlDbVersion(v)..=CrsqlDbVersion(v))).await.map_err(|e| eyre::eyre!("{e}"))?;
        }
        let deadline = Instant::now() + Duration::from_secs(20);
        let mut err = "";
        loop {
            match tokio::time::timeout(Duration::from_millis(200), self.events.recv()).await {
                Ok(Some(ev)) => {
                    if ev["ev"] == "clear_meta_round" && ev["actor"] == json!(actor) && ev["self"] == json!(me) && ev["buf"].as_u64().unwrap_or(0) < 1000 && ev["seq_rows"].as_u64().unwrap_or(0) < 1000 {
                        break;
                    }
                }
                _ => {
                    if Instant::now() > deadline {
                        err = "clear_buffered_meta round did not complete";
                        break;
                    }
                }
            }
        }
        let post = self.project(i).await?;
        self.emit(json!({"op": "clear", "a": a, "v": v}), i, post, json!({"err": err}));
        Ok(())
    }

    /// the needs client c computes against server s, in a canonical order
    pub async fn needs(&self, c: usize, s: usize) -> Vec<(ActorId, SyncNeedV1)> {
        let cs = generate_sync(&self.nodes[c].bookie, self.ids[c]).await;
        let ss = generate_sync(&self.nodes[s].bookie, self.ids[s]).await;
        let mut out: Vec<(ActorId, SyncNeedV1)> = vec![];
        for (a, ns) in cs.compute_available_needs(&ss) {
            for n in ns {
                out.push((a, n));
            }
        }
        out.sort_by_key(|(a, n)| {
            (
                self.idx_of(a),
                match n {
                    SyncNeedV1::Full { versions } => (0u8, versions.start().0, versions.end().0),
                    SyncNeedV1::Partial { version, .. } => (1, version.0, 0),
                    SyncNeedV1::Empty { .. } => (2, 0, 0),
                },
            )
        });
        out
    }

    pub fn abs_need(&self, a: &ActorId, n: &SyncNeedV1) -> Value {
        match n {
            SyncNeedV1::Full { versions } => json!({"a": self.idx_of(a), "k": "full", "lo": versions.start().0, "hi": versions.end().0}),
            SyncNeedV1::Partial { version, seqs } => json!({"a": self.idx_of(a), "k": "partial", "v": version.0, "seqs": seqs.iter().map(|r| json!([r.start().0, r.end().0])).collect::<Vec<_>>()}),
            SyncNeedV1::Empty { .. } => json!({"a": self.idx_of(a), "k": "emptyneed"}),
        }
    }

    /// server s answers one need (process_sync filter + handle_need)
    pub async fn op_serve(&mut self, s: usize, c: usize, a: ActorId, need: SyncNeedV1) -> eyre::Result<Vec<usize>> {
        self.op_serve_p(s, c, a, need, false).await
    }

    pub async fn op_serve_p(&mut self, s: usize, c: usize, a: ActorId, need: SyncNeedV1, probe: bool) -> eyre::Result<Vec<usize>> {
        let absn = self.abs_need(&a, &need);
        let adv = proj_adv_all(&self.nodes[s].bookie, self.ids[s], &self.ids).await;
        let msgs = verif_process_sync(self.nodes[s].agent.pool().clone(), self.nodes[s].bookie.clone(), vec![vec![(a, vec![need])]]).await?;
        if probe {
            // a need no honest client computes (e.g. seqs beyond last_seq): its answer is judged, but it is not a message
            // an honest network carries, so it never becomes deliverable
            let mut created = vec![];
            for m in msgs {
                if let SyncMessage::V1(SyncMessageV1::Changeset(cv)) = m {
                    created.push(self.abs_msg(0, &cv));
                }
            }
            let post = self.project(s).await?;
            self.emit(json!({"op": "probe", "need": absn}), s, post, json!({"created": created}));
            return Ok(vec![]);
        }
        let mut created = vec![];
        let mut ids = vec![];
        for m in msgs {
            if let SyncMessage::V1(SyncMessageV1::Changeset(cv)) = m {
                let abs = self.push_msg(cv);
                ids.push(abs["id"].as_u64().unwrap() as usize);
                created.push(abs);
            }
        }
        let post = self.project(s).await?;
        self.emit(json!({"op": "serve", "c": c + 1, "need": absn, "probe": probe}), s, post, json!({"created": created, "adv": adv}));
        Ok(ids)
    }

    /// read-only probe of the sync server: every need within the advertised head of `a` at server s
    pub async fn op_probe_sweep(&mut self, s: usize) -> eyre::Result<()> {
        let st = generate_sync(&self.nodes[s].bookie, self.ids[s]).await;
        for ai in 0..self.ids.len() {
            let actor = self.ids[ai];
            let head = st.heads.get(&actor).map(|v| v.0).unwrap_or(0);
            let mut needs = vec![];
            for lo in 1..=head {
                for hi in lo..=head {
                    needs.push(SyncNeedV1::Full { versions: CrsqlDbVersion(lo)..=CrsqlDbVersion(hi) });
                }
            }
            for v in 1..=head {
                for lo in 0..3u64 {
                    for hi in lo..3u64 {
                        needs.push(SyncNeedV1::Partial { version: CrsqlDbVersion(v), seqs: vec![CrsqlSeq(lo)..=CrsqlSeq(hi)] });
                    }
                }
            }
            for need in needs {
                let absn = self.abs_need(&actor, &need);
                let msgs = verif_process_sync(self.nodes[s].agent.pool().clone(), self.nodes[s].bookie.clone(), vec![vec![(actor, vec![need])]]).await?;
                let mut created = vec![];
                for m in msgs {
                    if let SyncMessage::V1(SyncMessageV1::Changeset(cv)) = m {
                        created.push(self.abs_msg(0, &cv));
                    }
                }
                let post = self.project(s).await?;
                self.emit(json!({"op": "probe", "need": absn}), s, post, json!({"created": created}));
            }
        }
        Ok(())
    }

    /// crash node i at this commit boundary and restart it on a copy of its files with the real
    /// start_with_config (setup + run_root initialisation); the restarted node runs autonomously
    pub async fn op_restart(&mut self, i: usize) -> eyre::Result<()> {
        let old_dir = self.nodes[i].dir.clone();
        let new_dir = fresh_dir("restart");
        for f in ["corrosion.db", "corrosion.db-wal"] {
            let src = old_dir.join(f);
            if src.exists() {
                std::fs::copy(&src, new_dir.join(f))?;
            }
        }
        let conf = make_conf(&new_dir)?;
        let (tripwire, worker, txw) = klukai_types::tripwire::Tripwire::new_simple();
        std::mem::forget(worker);
        std::mem::forget(txw);
        let (agent, bookie, _transport, _handles) = start_with_config(conf, tripwire).await?;
        if agent.actor_id() != self.ids[i] {
            eyre::bail!("restarted node changed its actor id");
        }
        let generation = self.nodes[i].generation + 1;
        // the old in-memory agent is abandoned (its process "died"); nothing calls into it again
        self.nodes[i] = SimNode { agent, bookie, node: None, auto: true, pend_apply: BTreeSet::new(), pend_clear: BTreeSet::new(), tx_clear: None, dir: new_dir, generation };
        self.settle_auto(i).await?;
        let post = self.project(i).await?;
        self.emit(json!({"op": "restart"}), i, post, json!({}));
        Ok(())
    }

    /// an autonomous (restarted) node applies buffered versions and clears meta rows by itself:
    /// wait until its durable state has been stable for a while
    async fn settle_auto(&mut self, i: usize) -> eyre::Result<()> {
        let deadline = Instant::now() + Duration::from_secs(10);
        let mut last = String::new();
        let mut stable_since = Instant::now();
        loop {
            let conn = self.nodes[i].agent.pool().read().await?;
            let mut sig = String::new();
            for a in self.ids.iter() {
                sig.push_str(&proj_rows(&conn, *a)?.to_string());
            }
            let cnt: i64 = conn.query_row("SELECT count(*) FROM crsql_changes", [], |r| r.get(0))?;
            sig.push_str(&cnt.to_string());
            drop(conn);
            if sig != last {
                last = sig;
                stable_since = Instant::now();
            }
            // pending = covered partials whose rows still exist
            if stable_since.elapsed() > Duration::from_millis(400) || Instant::now() > deadline {
                break;
            }
            sleep_ms(20).await;
        }
        Ok(())
    }
}

pub fn val_raw(v: &klukai_types::api::SqliteValue) -> String {
    match v {
        klukai_types::api::SqliteValue::Text(t) => format!("text:{t}"),
        other => format!("{other:?}"),
    }
}

pub fn val_num(v: &klukai_types::api::SqliteValue) -> i64 {
    match v {
        klukai_types::api::SqliteValue::Text(t) => t.parse::<i64>().unwrap_or(-1),
        klukai_types::api::SqliteValue::Integer(i) => *i,
        klukai_types::api::SqliteValue::Null => -2,
        _ => -3,
    }
}

/// generate_sync output for every actor of the cluster
pub async fn proj_adv_all(bookie: &Bookie, me: ActorId, ids: &[ActorId]) -> Value {
    let mut out = vec![];
    for (i, a) in ids.iter().enumerate() {
        let mut v = proj_adv(bookie, me, *a).await;
        merge(&mut v, json!({"a": i + 1}));
        out.push(v);
    }
    Value::Array(out)
}

/// seeded random walk over the real cluster
pub async fn run_walk(seed: u64, nodes: usize, nkeys: i64, steps: usize, with_restart: bool, out_path: &str) -> eyre::Result<()> {
    let sweeps: usize = std::env::var("VH_PROBE_SWEEPS").ok().and_then(|s| s.parse().ok()).unwrap_or(0);
    let mut rng = SmallRng::seed_from_u64(seed);
    let mut sim = Sim::new(nodes, nkeys).await?;
    let max_tx_per_node = 3u64;
    let mut restarts = 0;
    let mut own_counts = vec![0u64; nodes];
    for stepno in 0..steps {
        if sweeps > 0 && stepno > steps / 4 && stepno % std::cmp::max(1, steps / (sweeps + 1)) == 0 {
            let s = rng.random_range(0..nodes);
            sim.op_probe_sweep(s).await?;
        }
        let roll: u32 = rng.random_range(0..100);
        if roll < 18 {
            // local transaction (sometimes failing / no-op)
            let i = rng.random_range(0..nodes);
            if own_counts[i] >= max_tx_per_node || sim.nodes[i].auto {
                continue;
            }
            let nk = std::cmp::max(rng.random_range(1..=std::cmp::min(3, nkeys) as usize), rng.random_range(1..=std::cmp::min(3, nkeys) as usize));
            let mut keys: Vec<i64> = (1..=nkeys).collect();
            for j in 0..keys.len() {
                let k = rng.random_range(j..keys.len());
                keys.swap(j, k);
            }
            keys.truncate(nk);
            // sometimes the same cell is written twice in one transaction (leaves an unused sequence number)
            if nk < 3 && rng.random_range(0..100) < 25 {
                let again = keys[rng.random_range(0..keys.len())];
                let pos = rng.random_range(0..=keys.len());
                keys.insert(pos, again);
            }
            let f = rng.random_range(0..10);
            let fail = match f {
                0 => "constraint",
                1 => "syntax",
                2 => "params",
                3 => "first",
                4 => "noop",
                _ => "",
            };
            if fail.is_empty() {
                own_counts[i] += 1;
            }
            sim.op_tx(i, &keys, fail).await?;
        } else if roll < 36 {
            // network re-chunking
            let fulls: Vec<usize> = sim.net.iter().filter(|m| m.abs["k"] == "full" && m.abs["hi"].as_u64() > m.abs["lo"].as_u64()).map(|m| m.id).collect();
            if fulls.is_empty() {
                continue;
            }
            let m = fulls[rng.random_range(0..fulls.len())];
            let (lo, hi) = (sim.net[m - 1].abs["lo"].as_u64().unwrap(), sim.net[m - 1].abs["hi"].as_u64().unwrap());
            let a = rng.random_range(lo..=hi);
            let b = rng.random_range(a..=hi);
            if a == lo && b == hi {
                continue;
            }
            // honest chunkers never emit a sub-range chunk without changes
            let has_change = sim.net[m - 1].abs["chs"].as_array().map(|c| c.iter().any(|x| x["seq"].as_u64().map(|s| s >= a && s <= b).unwrap_or(false))).unwrap_or(false);
            if !has_change {
                continue;
            }
            sim.op_cut(m, a, b).await?;
        } else if roll < 68 {
            // delivery of 1..3 messages (any order, duplicates allowed) to a node
            if sim.net.is_empty() {
                continue;
            }
            let i = rng.random_range(0..nodes);
            let n = rng.random_range(1..=3usize);
            let mut batch = vec![];
            let partials: Vec<usize> = sim.net.iter().enumerate().filter(|(_, m)| m.abs["k"] == "full" && (m.abs["lo"].as_u64() != Some(0) || m.abs["hi"] != m.abs["last"])).map(|(i, _)| i).collect();
            for _ in 0..n {
                let m = if !partials.is_empty() && rng.random_range(0..100) < 55 { partials[rng.random_range(0..partials.len())] } else { rng.random_range(0..sim.net.len()) };
                if sim.net[m].abs["a"].as_u64() == Some(i as u64 + 1) {
                    continue; // a node does not ingest its own changes (handle_changes filters them)
                }
                {
                    // a partial chunk without any change is only ever sent to a node that already buffered
                    // another part of that version (it is the answer to a partial need)
                    let ab = &sim.net[m].abs;
                    let hole_only = ab["k"] == "full" && ab["chs"].as_array().map(|c| c.is_empty()).unwrap_or(false) && !(ab["lo"].as_u64() == Some(0) && ab["hi"] == ab["last"]);
                    if hole_only {
                        let a = sim.ids[ab["a"].as_u64().unwrap() as usize - 1];
                        let conn = sim.nodes[i].agent.pool().read().await?;
                        let has: bool = conn.query_row("SELECT EXISTS(SELECT 1 FROM __corro_buffered_changes WHERE site_id = ? AND db_version = ?)", rusqlite::params![a, ab["v"].as_u64().unwrap() as i64], |r| r.get(0))?;
                        if !has {
                            continue;
                        }
                    }
                }
                batch.push(m + 1);
            }
            if batch.is_empty() {
                continue;
            }
            sim.op_deliver(i, &batch).await?;
        } else if roll < 78 {
            let cands: Vec<(usize, (usize, u64))> = sim.nodes.iter().enumerate().flat_map(|(i, n)| n.pend_apply.iter().map(move |p| (i, *p))).collect();
            if cands.is_empty() {
                continue;
            }
            let (i, (a, v)) = cands[rng.random_range(0..cands.len())];
            sim.op_apply(i, a, v).await?;
        } else if roll < 83 {
            let cands: Vec<(usize, (usize, u64))> = sim.nodes.iter().enumerate().flat_map(|(i, n)| n.pend_clear.iter().map(move |p| (i, *p))).collect();
            if cands.is_empty() {
                continue;
            }
            let (i, (a, v)) = cands[rng.random_range(0..cands.len())];
            sim.op_clear(i, a, v).await?;
        } else if roll < 97 {
            let c = rng.random_range(0..nodes);
            let s = rng.random_range(0..nodes);
            if c == s {
                continue;
            }
            if rng.random_range(0..100) < 30 {
                // C05 quantifies over every need a peer may send within the advertised heads, not only
                // the ones an honest client computes: probe the server with an arbitrary one
                let ai = rng.random_range(0..nodes);
                if ai == c {
                    continue;
                }
                let st = generate_sync(&sim.nodes[s].bookie, sim.ids[s]).await;
                let head = st.heads.get(&sim.ids[ai]).map(|v| v.0).unwrap_or(0);
                if head == 0 {
                    continue;
                }
                let need = if rng.random_range(0..2) == 0 {
                    let lo = rng.random_range(1..=head);
                    let hi = rng.random_range(lo..=head);
                    SyncNeedV1::Full { versions: CrsqlDbVersion(lo)..=CrsqlDbVersion(hi) }
                } else {
                    let v = rng.random_range(1..=head);
                    let lo = rng.random_range(0..3u64);
                    let hi = rng.random_range(lo..3u64);
                    SyncNeedV1::Partial { version: CrsqlDbVersion(v), seqs: vec![CrsqlSeq(lo)..=CrsqlSeq(hi)] }
                };
                let actor = sim.ids[ai];
                sim.op_serve_p(s, c, actor, need, true).await?;
                continue;
            }
            let needs = sim.needs(c, s).await;
            if needs.is_empty() {
                continue;
            }
            let (a, need) = needs[rng.random_range(0..needs.len())].clone();
            sim.op_serve(s, c, a, need).await?;
        } else if with_restart && restarts < 2 {
            let i = rng.random_range(0..nodes);
            if sim.nodes[i].auto {
                continue;
            }
            restarts += 1;
            sim.op_restart(i).await?;
        }
    }
    // drain: fair sync sessions until nobody needs anything
    let mut rounds = 0;
    let mut quiescent = false;
    while rounds < 12 {
        rounds += 1;
        let mut progress = false;
        for c in 0..nodes {
            for s in 0..nodes {
                if c == s {
                    continue;
                }
                let needs = sim.needs(c, s).await;
                for (a, need) in needs {
                    progress = true;
                    let ids = sim.op_serve(s, c, a, need).await?;
                    for id in ids {
                        sim.op_deliver(c, &[id]).await?;
                    }
                }
            }
        }
        for i in 0..nodes {
            sim.drain_triggers(i);
            let pend: Vec<(usize, u64)> = sim.nodes[i].pend_apply.iter().cloned().collect();
            for (a, v) in pend {
                progress = true;
                sim.op_apply(i, a, v).await?;
            }
            let pend: Vec<(usize, u64)> = sim.nodes[i].pend_clear.iter().cloned().collect();
            for (a, v) in pend {
                progress = true;
                sim.op_clear(i, a, v).await?;
            }
        }
        if !progress {
            quiescent = true;
            break;
        }
    }
    let mut finals = vec![];
    for i in 0..nodes {
        finals.push(sim.project(i).await?);
    }
    sim.step += 1;
    let st = sim.step;
    sim.out.push(json!({"i": st, "op": {"op": "final"}, "n": 0, "quiescent": quiescent, "rounds": rounds, "finals": finals}));
    let mut f = std::io::BufWriter::new(std::fs::File::create(out_path)?);
    use std::io::Write;
    writeln!(f, "{}", json!({"i": 0, "op": {"op": "init", "nodes": nodes, "keys": nkeys, "seed": seed}, "n": 0}))?;
    for ev in sim.out.iter() {
        writeln!(f, "{}", ev)?;
    }
    f.flush()?;
    Ok(())
}

/// find a message of the network by its abstract content
fn find_msg(sim: &Sim, m: &Value) -> Option<usize> {
    sim.net
        .iter()
        .find(|x| {
            x.abs["k"] == m["k"]
                && x.abs["a"] == m["a"]
                && x.abs["lo"] == m["lo"]
                && x.abs["hi"] == m["hi"]
                && (m["k"] == "empty" || (x.abs["v"] == m["v"] && x.abs["last"] == m["last"]))
        })
        .map(|x| x.id)
}

fn set_to_runs(v: &Value) -> Vec<(u64, u64)> {
    let mut xs: Vec<u64> = v.as_array().map(|a| a.iter().filter_map(|x| x.as_u64()).collect()).unwrap_or_default();
    xs.sort();
    let mut out: Vec<(u64, u64)> = vec![];
    for x in xs {
        match out.last_mut() {
            Some(l) if l.1 + 1 == x => l.1 = x,
            _ => out.push((x, x)),
        }
    }
    out
}

/// execute a behaviour of Replication.tla (a TLC counter-example or a kept regression) on real agents
pub async fn run_replay(input: &str, out_path: &str) -> eyre::Result<()> {
    let spec: Value = serde_json::from_str(&std::fs::read_to_string(input)?)?;
    let nodes = spec["nodes"].as_u64().unwrap_or(2) as usize;
    let nkeys = spec["keys"].as_i64().unwrap_or(2);
    let mut sim = Sim::new(nodes, nkeys).await?;
    let mut skipped = vec![];
    for (idx, act) in spec["actions"].as_array().cloned().unwrap_or_default().iter().enumerate() {
        let name = act[0].as_str().unwrap_or("");
        let c = &act[1];
        match name {
            "LocalTx" => {
                let keys: Vec<i64> = c["ks"].as_array().unwrap().iter().map(|k| k.as_i64().unwrap()).collect();
                sim.op_tx(c["n"].as_u64().unwrap() as usize - 1, &keys, "").await?;
            }
            "Cut" => match find_msg(&sim, &c["m"]) {
                Some(id) => sim.op_cut(id, c["lo"].as_u64().unwrap(), c["hi"].as_u64().unwrap()).await?,
                None => skipped.push(idx),
            },
            "Deliver" => {
                let ids: Vec<usize> = c["ms"].as_array().unwrap().iter().filter_map(|m| find_msg(&sim, m)).collect();
                if ids.len() != c["ms"].as_array().unwrap().len() {
                    skipped.push(idx);
                } else {
                    sim.op_deliver(c["n"].as_u64().unwrap() as usize - 1, &ids).await?;
                }
            }
            "ApplyBuffered" | "ClearMeta" => {
                let (n, a, v) = (c["n"].as_u64().unwrap() as usize - 1, c["a"].as_u64().unwrap() as usize, c["v"].as_u64().unwrap());
                if sim.nodes[n].auto {
                    skipped.push(idx);
                } else if name == "ApplyBuffered" {
                    sim.op_apply(n, a, v).await?;
                } else {
                    sim.op_clear(n, a, v).await?;
                }
            }
            "SyncServe" => {
                let (s, cl, a) = (c["s"].as_u64().unwrap() as usize - 1, c["c"].as_u64().unwrap() as usize - 1, c["a"].as_u64().unwrap() as usize);
                let need = &c["need"];
                let n = if need["k"] == "full" {
                    SyncNeedV1::Full { versions: CrsqlDbVersion(need["lo"].as_u64().unwrap())..=CrsqlDbVersion(need["hi"].as_u64().unwrap()) }
                } else {
                    SyncNeedV1::Partial { version: CrsqlDbVersion(need["v"].as_u64().unwrap()), seqs: set_to_runs(&need["seqs"]).into_iter().map(|(x, y)| CrsqlSeq(x)..=CrsqlSeq(y)).collect() }
                };
                let actor = sim.ids[a - 1];
                sim.op_serve(s, cl, actor, n).await?;
            }
            "Restart" => sim.op_restart(c["n"].as_u64().unwrap() as usize - 1).await?,
            _ => skipped.push(idx),
        }
    }
    let mut finals = vec![];
    for i in 0..nodes {
        finals.push(sim.project(i).await?);
    }
    let mut f = std::io::BufWriter::new(std::fs::File::create(out_path)?);
    use std::io::Write;
    writeln!(f, "{}", json!({"i": 0, "op": {"op": "init", "nodes": nodes, "keys": nkeys, "seed": 0, "skipped": skipped}, "n": 0}))?;
    for ev in sim.out.iter() {
        writeln!(f, "{}", ev)?;
    }
    f.flush()?;
    Ok(())
}

#[allow(dead_code)]
pub fn unused(_: BTreeMap<u8, u8>) {}
