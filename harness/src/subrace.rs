//! sub-race: attach / resume subscribers to a live subscription of a real agent (HTTP API, real client
//! library) while a writer commits; with `forced` the pause points of catch_up_sub are used to replay the
//! TLC counter-example of SubCatchUp.tla (an event already covered by the snapshot is still in the
//! broadcast receiver when the queue task exits).
use std::io::Write;
use std::time::Duration;

use futures::StreamExt;
use klukai_client::CorrosionApiClient;
use klukai_client::sub::SubscriptionError;
use klukai_types::api::{Statement, TypedQueryEvent};
use klukai_types::verif;
use rand::rngs::SmallRng;
use rand::{Rng, SeedableRng};
use serde_json::{Value, json};

use crate::common::*;

async fn read_stream(mut st: klukai_client::sub::SubscriptionStream<Vec<klukai_types::api::SqliteValue>>, ms: u64) -> Vec<Value> {
    let mut out = vec![];
    let deadline = tokio::time::Instant::now() + Duration::from_millis(ms);
    loop {
        match tokio::time::timeout_at(deadline, st.next()).await {
            Err(_) => break,
            Ok(None) => {
                out.push(json!({"k": "closed"}));
                break;
            }
            Ok(Some(Ok(ev))) => match ev {
                TypedQueryEvent::EndOfQuery { change_id, .. } => out.push(json!({"k": "eoq", "id": change_id.map(|c| c.0).unwrap_or(0)})),
                TypedQueryEvent::Change(_, _, _, id) => out.push(json!({"k": "change", "id": id.0})),
                TypedQueryEvent::Error(e) => {
                    out.push(json!({"k": "error", "msg": e.to_string()}));
                }
                _ => {}
            },
            Ok(Some(Err(e))) => {
                match e {
                    SubscriptionError::MissedChange { expected, got } => out.push(json!({"k": "missed", "expected": expected.0, "got": got.0})),
                    other => out.push(json!({"k": "client_error", "msg": other.to_string()})),
                }
                break;
            }
        }
    }
    out
}

pub async fn run(seed: u64, attempts: u64, mode: u64, out_path: &str) -> eyre::Result<()> {
    let forced = mode == 1;
    let dir = fresh_dir("subrace");
    let conf = make_conf(&dir)?;
    let (tripwire, worker, txw) = klukai_types::tripwire::Tripwire::new_simple();
    std::mem::forget(worker);
    std::mem::forget(txw);
    let (agent, _bookie, _t, _h) = klukai_agent::agent::start_with_config(conf, tripwire).await?;
    let client = CorrosionApiClient::new(agent.api_addr());
    client.schema(&[Statement::Simple(SCHEMA.into())]).await?;
    let q = Statement::Simple("SELECT id, text FROM tests".into());
    client.execute(&[Statement::Simple("INSERT INTO tests (id, text) VALUES (1, 'one')".into())], None).await?;
    // subscriber 0 creates the subscription and keeps it alive
    let s0 = client.subscribe(&q, false, None).await?;
    let sub_id = s0.id();
    let keep = tokio::spawn(read_stream(s0, 600_000));
    sleep_ms(300).await;
    let mut rng = SmallRng::seed_from_u64(seed);
    let mut results = vec![];
    let mut next_id = 2i64;
    for att in 0..attempts {
        if mode == 2 {
            // second forced schedule: the subscriber attaches while the matcher has sent a change event but not
            // yet committed it (events are sent before the commit), so the snapshot ends before a change the
            // queue already holds and the catch-up has to re-read the change log
            let mut g = verif::arm("matcher.before_commit");
            client.execute(&[Statement::WithParams("INSERT INTO tests (id, text) VALUES (?, ?)".into(), vec![next_id.into(), format!("v{next_id}").into()])], None).await?;
            next_id += 1;
            let parked = tokio::time::timeout(Duration::from_secs(4), async {
                while *g.borrow_and_update() == 0 {
                    let _ = g.changed().await;
                }
            })
            .await
            .is_ok();
            let c2 = client.clone();
            let reader = tokio::spawn(async move {
                match c2.subscription(sub_id, false, None).await {
                    Ok(st) => read_stream(st, 3500).await,
                    Err(e) => vec![json!({"k": "attach_error", "msg": e.to_string()})],
                }
            });
            sleep_ms(160).await; // snapshot taken, queue peeked, first re-read found nothing yet
            verif::disarm("matcher.before_commit"); // the matcher commits
            sleep_ms(900).await;
            client.execute(&[Statement::WithParams("INSERT INTO tests (id, text) VALUES (?, ?)".into(), vec![next_id.into(), format!("v{next_id}").into()])], None).await?;
            next_id += 1;
            let got = reader.await?;
            results.push(json!({"attempt": att, "mode": "inflight", "parked": parked, "out": got}));
        } else if forced {
            let mut a1 = verif::arm("catchup.queue_loop");
            let mut a2 = verif::arm("catchup.before_snapshot");
            let c2 = client.clone();
            let reader = tokio::spawn(async move {
                match c2.subscription(sub_id, false, None).await {
                    Ok(st) => read_stream(st, 2500).await,
                    Err(e) => vec![json!({"k": "attach_error", "msg": e.to_string()})],
                }
            });
            // wait until both the queue task and the catch-up are parked
            let _ = tokio::time::timeout(Duration::from_secs(5), async {
                while *a1.borrow_and_update() == 0 {
                    let _ = a1.changed().await;
                }
                while *a2.borrow_and_update() == 0 {
                    let _ = a2.changed().await;
                }
            })
            .await;
            // a write commits; the matcher emits the change (events first, then its commit)
            client.execute(&[Statement::WithParams("INSERT INTO tests (id, text) VALUES (?, ?)".into(), vec![next_id.into(), format!("v{next_id}").into()])], None).await?;
            next_id += 1;
            sleep_ms(900).await; // matcher batching window + commit
            verif::release("catchup.before_snapshot", 1); // the snapshot now covers the change
            sleep_ms(300).await; // catch-up runs to cancel(); the queue task is still parked with the event in its receiver
            verif::disarm("catchup.queue_loop");
            verif::disarm("catchup.before_snapshot");
            let got = reader.await?;
            results.push(json!({"attempt": att, "mode": "forced", "out": got}));
        } else {
            // unforced: attach (sometimes resuming) while a writer commits
            let c3 = client.clone();
            let n = rng.random_range(1..4);
            let base = next_id;
            next_id += n;
            let writer = tokio::spawn(async move {
                for i in 0..n {
                    let _ = c3.execute(&[Statement::WithParams("INSERT INTO tests (id, text) VALUES (?, ?)".into(), vec![(base + i).into(), format!("v{}", base + i).into()])], None).await;
                    sleep_ms(5).await;
                }
            });
            sleep_ms(rng.random_range(0..700)).await;
            let st = client.subscription(sub_id, false, None).await;
            let got = match st {
                Ok(st) => read_stream(st, 1800).await,
                Err(e) => vec![json!({"k": "attach_error", "msg": e.to_string()})],
            };
            let _ = writer.await;
            results.push(json!({"attempt": att, "mode": "free", "out": got}));
        }
    }
    keep.abort();
    let mut f = std::io::BufWriter::new(std::fs::File::create(out_path)?);
    for r in results {
        writeln!(f, "{}", r)?;
    }
    f.flush()?;
    Ok(())
}
