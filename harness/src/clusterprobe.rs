//! cluster-probe: two real agents (start_with_config); hand-built UniPayload frames are sent over the public
//! Transport with every declared cluster id (and without the trailing field), before and after the receiver's
//! cluster id changes; sync sessions are opened with parallel_sync between different cluster ids.
use std::io::Write;
use std::time::Duration;

use bytes::{BufMut, Bytes, BytesMut};
use klukai_agent::api::peer::parallel_sync;
use klukai_types::actor::{ActorId, ClusterId};
use klukai_types::api::SqliteValue;
use klukai_types::broadcast::{BroadcastV1, UniPayload, UniPayloadV1};
use klukai_types::sync::generate_sync;
use serde_json::{Value, json};
use speedy::Writable;

use crate::common::*;

fn frame(actor: ActorId, v: u64, key: i64, declared: Option<u16>, ts: klukai_types::broadcast::Timestamp) -> Bytes {
    let ch = mk_change("tests", key, "text", SqliteValue::Text(format!("k{key}").into()), 1, v, 0, actor, 1);
    let cv = full_cs(actor, v, vec![ch], 0, 0, 0, ts);
    let payload = UniPayload::V1 { data: UniPayloadV1::Broadcast(BroadcastV1::Change(cv)), cluster_id: ClusterId(declared.unwrap_or(0)) };
    let mut raw = payload.write_to_vec().unwrap();
    if declared.is_none() {
        // an old peer does not send the trailing cluster id (u16)
        raw.truncate(raw.len() - 2);
    }
    let mut b = BytesMut::with_capacity(raw.len() + 4);
    b.put_u32(raw.len() as u32);
    b.extend_from_slice(&raw);
    b.freeze()
}

async fn has_key(agent: &klukai_types::agent::Agent, key: i64) -> bool {
    for _ in 0..25 {
        if let Ok(conn) = agent.pool().read().await {
            let n: i64 = conn.query_row("SELECT COUNT(*) FROM tests WHERE id = ?", [key], |r| r.get(0)).unwrap_or(0);
            if n > 0 {
                return true;
            }
        }
        sleep_ms(60).await;
    }
    false
}

pub async fn run(out_path: &str) -> eyre::Result<()> {
    let mk = |tag: &str| {
        let dir = fresh_dir(tag);
        make_conf(&dir)
    };
    let (tw, w, t) = klukai_types::tripwire::Tripwire::new_simple();
    std::mem::forget(w);
    std::mem::forget(t);
    let (recv, _rb, _rt, _rh) = klukai_agent::agent::start_with_config(mk("clR")?, tw.clone()).await?;
    let (send, send_bookie, send_transport, _sh) = klukai_agent::agent::start_with_config(mk("clS")?, tw.clone()).await?;
    for a in [&recv, &send] {
        let (st, _) = klukai_agent::api::public::api_v1_db_schema(axum::Extension(a.clone()), axum::Json(vec![SCHEMA.to_string()])).await;
        if st != http::StatusCode::OK {
            eyre::bail!("schema");
        }
    }
    let ts = ts_now(&send);
    let mut cases: Vec<Value> = vec![];
    let mut key = 100i64;
    let mut ver = 1u64;
    let foreign = ActorId(uuid::Uuid::new_v4());
    // (1) fresh connection per receiver cluster id x every declared id
    for rc in [0u16, 1] {
        recv.set_cluster_id(ClusterId(rc));
        // a new connection: the transport caches connections per address, so use a fresh transport per round
        let (rtt_tx, _rtt_rx) = tokio::sync::mpsc::channel(16);
        let tr = klukai_agent::transport::Transport::new(&send.config().gossip, rtt_tx).await?;
        for declared in [Some(0u16), Some(1), Some(2), None] {
            key += 1;
            ver += 1;
            tr.send_uni(recv.gossip_addr(), frame(foreign, ver, key, declared, ts)).await?;
            let applied = has_key(&recv, key).await;
            cases.push(json!({"kind": "uni", "receiver_cluster": rc, "declared": declared.map(|d| d as i64).unwrap_or(-1), "existing_connection": false, "applied": applied}));
        }
        // (2) the receiver changes its cluster id while the connection stays open
        let newc = 1 - rc;
        recv.set_cluster_id(ClusterId(newc));
        for declared in [Some(rc), Some(newc)] {
            key += 1;
            ver += 1;
            tr.send_uni(recv.gossip_addr(), frame(foreign, ver, key, declared, ts)).await?;
            let applied = has_key(&recv, key).await;
            cases.push(json!({"kind": "uni", "receiver_cluster": newc, "declared": declared.map(|d| d as i64).unwrap_or(-1), "existing_connection": true, "applied": applied}));
        }
    }
    // (3) sync sessions between different / equal cluster ids
    for (sc, rc) in [(0u16, 1u16), (1, 0), (1, 1), (0, 0)] {
        send.set_cluster_id(ClusterId(sc));
        recv.set_cluster_id(ClusterId(rc));
        // the receiver has something the sender lacks
        key += 1;
        let _ = klukai_agent::api::public::api_v1_transactions(
            axum::Extension(recv.clone()),
            axum::extract::Query(klukai_agent::api::public::TimeoutParams { timeout: None }),
            axum::Json(vec![klukai_types::api::Statement::WithParams("INSERT INTO tests (id, text) VALUES (?, 'sync')".into(), vec![klukai_types::api::SqliteParam::Integer(key)])]),
        )
        .await;
        let st = generate_sync(&send_bookie, send.actor_id()).await;
        let res = tokio::time::timeout(Duration::from_secs(8), parallel_sync(&send, &send_transport, vec![(recv.actor_id(), recv.gossip_addr())], st)).await;
        let outcome = match &res {
            Err(_) => "timeout".to_string(),
            Ok(Ok(n)) => format!("ok:{n}"),
            Ok(Err(e)) => format!("err:{e}"),
        };
        let got = has_key(&send, key).await;
        cases.push(json!({"kind": "sync", "client_cluster": sc, "server_cluster": rc, "outcome": outcome, "data_transferred": got}));
    }
    // (4) the sending side: a node whose cluster id changes while it runs must stop addressing (and stamping for) the
    // cluster it left.  The sender knows one member of cluster 0 and one of cluster 1; its own writes are broadcast.
    {
        let (r0, _b0, _t0, _h0) = klukai_agent::agent::start_with_config(mk("clM0")?, tw.clone()).await?;
        let (r1, _b1, _t1, _h1) = klukai_agent::agent::start_with_config(mk("clM1")?, tw.clone()).await?;
        let (snd, _sb, _st, _sh) = klukai_agent::agent::start_with_config(mk("clSend")?, tw.clone()).await?;
        for a in [&r0, &r1, &snd] {
            let (st, _) = klukai_agent::api::public::api_v1_db_schema(axum::Extension(a.clone()), axum::Json(vec![SCHEMA.to_string()])).await;
            if st != http::StatusCode::OK {
                eyre::bail!("schema");
            }
        }
        r0.set_cluster_id(ClusterId(0));
        r1.set_cluster_id(ClusterId(1));
        snd.set_cluster_id(ClusterId(0));
        {
            let ts = ts_now(&snd);
            let mut m = snd.members().write();
            m.add_member(&klukai_types::actor::Actor::new(r0.actor_id(), r0.gossip_addr(), ts, ClusterId(0)));
            m.add_member(&klukai_types::actor::Actor::new(r1.actor_id(), r1.gossip_addr(), ts, ClusterId(1)));
        }
        let write = |agent: klukai_types::agent::Agent, k: i64| async move {
            let _ = klukai_agent::api::public::api_v1_transactions(
                axum::Extension(agent),
                axum::extract::Query(klukai_agent::api::public::TimeoutParams { timeout: None }),
                axum::Json(vec![klukai_types::api::Statement::WithParams("INSERT INTO tests (id, text) VALUES (?, 'bcast')".into(), vec![klukai_types::api::SqliteParam::Integer(k)])]),
            )
            .await;
        };
        for (phase, sender_cluster, k) in [("before", 0u16, 501i64), ("after", 1u16, 502i64)] {
            snd.set_cluster_id(ClusterId(sender_cluster));
            write(snd.clone(), k).await;
            // broadcasts are retransmitted a few times within the first seconds
            let mut got0 = false;
            let mut got1 = false;
            for _ in 0..6 {
                got0 = got0 || has_key(&r0, k).await;
                got1 = got1 || has_key(&r1, k).await;
                if got0 || got1 {
                    // give the other one a moment too
                    sleep_ms(1200).await;
                    got0 = got0 || has_key(&r0, k).await;
                    got1 = got1 || has_key(&r1, k).await;
                    break;
                }
            }
            cases.push(json!({"kind": "send", "phase": phase, "sender_cluster": sender_cluster, "member_cluster0_got": got0, "member_cluster1_got": got1}));
        }
    }
    let mut f = std::io::BufWriter::new(std::fs::File::create(out_path)?);
    writeln!(f, "{}", json!({"cases": cases}))?;
    f.flush()?;
    Ok(())
}
