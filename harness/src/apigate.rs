//! api-gate: the decision and effect tables of specs/ApiGate.tla replayed against the live HTTP listener of
//! real agents (one with an API token configured, one without).
use std::io::Write;

use http_body_util::{BodyExt, Full};
use hyper_util::client::legacy::Client;
use hyper_util::rt::TokioExecutor;
use klukai_types::config::AuthzConfig;
use serde_json::{Value, json};

use crate::common::*;

const TOKEN: &str = "s3cr3t-token";

fn header_for(shape: &str) -> Option<String> {
    match shape {
        "missing" => None,
        "basic" => Some("Basic czNjcjN0LXRva2Vu".into()),
        "wrong" => Some("Bearer not-the-token".into()),
        "prefix" => Some(format!("Bearer {}", &TOKEN[..TOKEN.len() - 2])),
        "suffix" => Some(format!("Bearer {TOKEN}xx")),
        "right_lowercase_scheme" => Some(format!("bearer {TOKEN}")),
        "right" => Some(format!("Bearer {TOKEN}")),
        _ => None,
    }
}

fn stmt_for(class: &str, dir: &std::path::Path) -> String {
    match class {
        "select" => "SELECT id, text FROM tests".into(),
        "insert" => "INSERT INTO tests (id, text) VALUES (901, 'x')".into(),
        "update" => "UPDATE tests SET text = 'changed'".into(),
        "delete" => "DELETE FROM tests".into(),
        "create_table" => "CREATE TABLE sneaky (id INTEGER PRIMARY KEY)".into(),
        "drop_table" => "DROP TABLE tests".into(),
        "pragma_write" => "PRAGMA user_version = 77".into(),
        "attach" => format!("ATTACH DATABASE '{}' AS other", dir.join("attached.db").display()),
        "multi" => "SELECT 1; DELETE FROM tests".into(),
        "cte_write" => "WITH x AS (SELECT 902 AS id) INSERT INTO tests (id, text) SELECT id, 'cte' FROM x".into(),
        "returning" => "INSERT INTO tests (id, text) VALUES (903, 'r') RETURNING id".into(),
        "select_side_effect" => "SELECT crsql_set_db_version(x'00112233445566778899aabbccddeeff', 55)".into(),
        _ => "SELECT 1".into(),
    }
}

async fn digest(agent: &klukai_types::agent::Agent, dir: &std::path::Path) -> eyre::Result<Value> {
    let conn = agent.pool().read().await?;
    let rows: (i64, i64) = conn.query_row("SELECT COUNT(*), COALESCE(SUM(id), 0) FROM tests", [], |r| Ok((r.get(0)?, r.get(1)?)))?;
    let texts: String = conn.query_row("SELECT COALESCE(GROUP_CONCAT(text, ','), '') FROM (SELECT text FROM tests ORDER BY id)", [], |r| r.get(0))?;
    let schema_n: i64 = conn.query_row("SELECT COUNT(*) FROM sqlite_schema", [], |r| r.get(0))?;
    let dbv: i64 = conn.query_row("SELECT crsql_db_version()", [], |r| r.get(0))?;
    let uv: i64 = conn.query_row("PRAGMA user_version", [], |r| r.get(0))?;
    let others: i64 = conn.query_row("SELECT COUNT(*) FROM crsql_db_versions", [], |r| r.get(0))?;
    let heads = { agent.booked().read::<&str, _>("vh", None).await.last().map(|v| v.0).unwrap_or(0) };
    Ok(json!({"rows": rows.0, "sum": rows.1, "texts": texts, "schema_objects": schema_n, "db_version": dbv, "user_version": uv, "db_versions_rows": others, "own_head": heads, "attached_file": dir.join("attached.db").exists()}))
}

pub async fn run(out_path: &str) -> eyre::Result<()> {
    let client: Client<_, Full<bytes::Bytes>> = Client::builder(TokioExecutor::new()).build_http();
    let mut cases = vec![];
    for token_set in [true, false] {
        let dir = fresh_dir(if token_set { "apiT" } else { "apiO" });
        let mut conf = make_conf(&dir)?;
        if token_set {
            conf.api.authorization = Some(AuthzConfig::BearerToken(TOKEN.into()));
        }
        let (tw, w, t) = klukai_types::tripwire::Tripwire::new_simple();
        std::mem::forget(w);
        std::mem::forget(t);
        let (agent, _b, _t, _h) = klukai_agent::agent::start_with_config(conf, tw).await?;
        let (st, _) = klukai_agent::api::public::api_v1_db_schema(axum::Extension(agent.clone()), axum::Json(vec![SCHEMA.to_string()])).await;
        if st != http::StatusCode::OK {
            eyre::bail!("schema");
        }
        let _ = klukai_agent::api::public::api_v1_transactions(
            axum::Extension(agent.clone()),
            axum::extract::Query(klukai_agent::api::public::TimeoutParams { timeout: None }),
            axum::Json(vec![klukai_types::api::Statement::Simple("INSERT INTO tests (id, text) VALUES (1, 'one'), (2, 'two')".into())]),
        )
        .await;
        let base = format!("http://{}", agent.api_addr());
        let sub_id = uuid::Uuid::new_v4();
        let routes: Vec<(&str, String, &str, String)> = vec![
            ("transactions", "/v1/transactions".into(), "POST", json!(["INSERT INTO tests (id, text) VALUES (950, 'viaapi')"]).to_string()),
            ("queries", "/v1/queries".into(), "POST", json!("SELECT id FROM tests").to_string()),
            ("subscriptions", "/v1/subscriptions".into(), "POST", json!("SELECT id FROM tests").to_string()),
            ("updates", "/v1/updates/tests".into(), "POST", "".into()),
            ("subscription_by_id", format!("/v1/subscriptions/{sub_id}"), "GET", "".into()),
            ("migrations", "/v1/migrations".into(), "POST", json!(["CREATE TABLE viaapi (id INTEGER NOT NULL PRIMARY KEY)"]).to_string()),
            ("table_stats", "/v1/table_stats".into(), "POST", json!({"tables": ["tests"]}).to_string()),
            ("unknown", "/v1/nope".into(), "POST", "".into()),
        ];
        // (1) decision table: route x method x header shape
        for (name, path, reg_method, body) in routes.iter() {
            for method in ["GET", "POST", "PUT", "DELETE"] {
                for shape in ["missing", "basic", "wrong", "prefix", "suffix", "right_lowercase_scheme", "right"] {
                    let before = digest(&agent, &dir).await?;
                    let mut rb = http::Request::builder().method(method).uri(format!("{base}{path}")).header("content-type", "application/json");
                    if let Some(h) = header_for(shape) {
                        rb = rb.header("authorization", h);
                    }
                    let req = rb.body(Full::new(bytes::Bytes::from(body.clone())))?;
                    let status = match tokio::time::timeout(std::time::Duration::from_secs(5), client.request(req)).await {
                        Ok(Ok(resp)) => resp.status().as_u16(),
                        Ok(Err(_)) => 0,
                        Err(_) => 1,
                    };
                    let authorized = !token_set || shape == "right" || shape == "right_lowercase_scheme";
                    // only the rejected requests are compared for "no action"; authorized writes change the node
                    let after = if authorized { before.clone() } else { digest(&agent, &dir).await? };
                    cases.push(json!({"kind": "decision", "token_set": token_set, "route": name, "registered_method": reg_method, "method": method, "header": shape, "status": status, "unchanged": before == after}));
                }
            }
        }
        // (2) effect table: every statement class on the read endpoints, with full access
        for class in ["select", "insert", "update", "delete", "create_table", "drop_table", "pragma_write", "attach", "multi", "cte_write", "returning", "select_side_effect"] {
            for (name, path) in [("queries", "/v1/queries"), ("subscriptions", "/v1/subscriptions")] {
                let before = digest(&agent, &dir).await?;
                let mut rb = http::Request::builder().method("POST").uri(format!("{base}{path}")).header("content-type", "application/json");
                if token_set {
                    rb = rb.header("authorization", format!("Bearer {TOKEN}"));
                }
                let req = rb.body(Full::new(bytes::Bytes::from(json!(stmt_for(class, &dir)).to_string())))?;
                let (status, first) = match tokio::time::timeout(std::time::Duration::from_secs(5), client.request(req)).await {
                    Ok(Ok(resp)) => {
                        let st = resp.status().as_u16();
                        let mut body = resp.into_body();
                        let first = match tokio::time::timeout(std::time::Duration::from_millis(1500), body.frame()).await {
                            Ok(Some(Ok(f))) => f.into_data().map(|d| String::from_utf8_lossy(&d).chars().take(160).collect::<String>()).unwrap_or_default(),
                            _ => String::new(),
                        };
                        (st, first)
                    }
                    _ => (0, String::new()),
                };
                sleep_ms(150).await;
                let after = digest(&agent, &dir).await?;
                cases.push(json!({"kind": "effect", "token_set": token_set, "route": name, "class": class, "status": status, "first": first, "unchanged": before == after, "before": before, "after": after}));
            }
        }
    }
    let mut f = std::io::BufWriter::new(std::fs::File::create(out_path)?);
    writeln!(f, "{}", json!({"cases": cases}))?;
    f.flush()?;
    Ok(())
}
