//! matcher-walk: a real subscription (HTTP API + client library) on a real agent A while local transactions
//! commit and transactions of a second real node B are merged in shuffled order; after every burst the fold
//! of the received events is compared with the subscribed query run on the node database.
use std::collections::BTreeMap;
use std::io::Write;
use std::time::Duration;

use axum::Extension;
use futures::StreamExt;
use klukai_agent::agent::process_multiple_changes;
use klukai_agent::api::public::{TimeoutParams, api_v1_transactions};
use klukai_client::CorrosionApiClient;
use klukai_types::api::sqlite::ChangeType;
use klukai_types::api::{SqliteParam, SqliteValue, Statement, TypedQueryEvent};
use klukai_types::broadcast::{BroadcastInput, BroadcastV1, ChangeV1};
use rand::rngs::SmallRng;
use rand::{Rng, SeedableRng};
use serde_json::{Value, json};

use crate::common::*;

static COMPOSITE: std::sync::atomic::AtomicBool = std::sync::atomic::AtomicBool::new(false);

pub const MSCHEMA: &str = r#"
CREATE TABLE IF NOT EXISTS ma (id INTEGER NOT NULL PRIMARY KEY, x INTEGER);
CREATE TABLE IF NOT EXISTS mb (id INTEGER NOT NULL PRIMARY KEY, aid INTEGER NOT NULL DEFAULT 0, y INTEGER);
CREATE TABLE IF NOT EXISTS mc (a INTEGER NOT NULL, b TEXT NOT NULL, x INTEGER, PRIMARY KEY (a, b));
"#;

pub fn query_of(kind: &str) -> &'static str {
    match kind {
        "filter" => "SELECT id, x FROM ma WHERE x > 1",
        "expr" => "SELECT id, x * 2 + 1 AS d FROM ma",
        "inner" => "SELECT ma.id, mb.id, ma.x, mb.y FROM ma JOIN mb ON mb.aid = ma.id",
        "left" => "SELECT ma.id, ma.x, mb.y FROM ma LEFT JOIN mb ON mb.aid = ma.id",
        "composite" => "SELECT a, b, x FROM mc WHERE x IS NULL OR x < 3",
        "compjoin" => "SELECT mc.a, mc.b, mc.x, ma.x FROM mc JOIN ma ON ma.id = mc.a",
        _ => "SELECT id, x FROM ma",
    }
}

fn vjson(v: &SqliteValue) -> Value {
    match v {
        SqliteValue::Null => Value::Null,
        SqliteValue::Integer(i) => json!(i),
        SqliteValue::Real(r) => json!(r.0),
        SqliteValue::Text(t) => json!(t.to_string()),
        SqliteValue::Blob(b) => json!(format!("{b:?}")),
    }
}

fn rand_stmt_c(rng: &mut SmallRng) -> Statement {
    let a = SqliteParam::Integer(rng.random_range(1..=2i64));
    let b = SqliteParam::Text(["p", "q"][rng.random_range(0..2usize)].into());
    let v = match rng.random_range(0..=4i64) {
        0 => SqliteParam::Null,
        n => SqliteParam::Integer(n),
    };
    match rng.random_range(0..5) {
        0 | 1 => Statement::WithParams("INSERT INTO mc (a, b, x) VALUES (?, ?, ?) ON CONFLICT (a, b) DO UPDATE SET x = excluded.x".into(), vec![a, b, v]),
        2 => Statement::WithParams("DELETE FROM mc WHERE a = ? AND b = ?".into(), vec![a, b]),
        3 => Statement::WithParams("UPDATE mc SET x = ? WHERE a = ?".into(), vec![v, a]),
        _ => Statement::WithParams("DELETE FROM mc WHERE b = ?".into(), vec![b]),
    }
}

fn rand_stmt(rng: &mut SmallRng, nk: i64) -> Statement {
    if COMPOSITE.load(std::sync::atomic::Ordering::Relaxed) && rng.random_range(0..3) > 0 {
        return rand_stmt_c(rng);
    }
    let k = rng.random_range(1..=nk);
    // a third of the written values are NULL
    let v = match rng.random_range(0..=4i64) {
        0 | 4 => SqliteParam::Null,
        n => SqliteParam::Integer(n),
    };
    match rng.random_range(0..8) {
        0 | 1 => Statement::WithParams("INSERT INTO ma (id, x) VALUES (?, ?) ON CONFLICT (id) DO UPDATE SET x = excluded.x".into(), vec![SqliteParam::Integer(k), v.clone()]),
        2 => Statement::WithParams("DELETE FROM ma WHERE id = ?".into(), vec![SqliteParam::Integer(k)]),
        3 => Statement::WithParams("UPDATE ma SET x = ? WHERE id = ?".into(), vec![v.clone(), SqliteParam::Integer(k)]),
        4 | 5 => Statement::WithParams("INSERT INTO mb (id, aid, y) VALUES (?, ?, ?) ON CONFLICT (id) DO UPDATE SET aid = excluded.aid, y = excluded.y".into(), vec![SqliteParam::Integer(k), SqliteParam::Integer(rng.random_range(1..=nk)), v.clone()]),
        6 => Statement::WithParams("DELETE FROM mb WHERE id = ?".into(), vec![SqliteParam::Integer(k)]),
        _ => Statement::WithParams("UPDATE mb SET aid = ? WHERE id = ?".into(), vec![SqliteParam::Integer(rng.random_range(1..=nk)), SqliteParam::Integer(k)]),
    }
}

pub async fn run(seed: u64, kind: &str, bursts: usize, out_path: &str) -> eyre::Result<()> {
    let mut rng = SmallRng::seed_from_u64(seed);
    COMPOSITE.store(kind.starts_with("comp"), std::sync::atomic::Ordering::Relaxed);
    let nk = 3i64;
    let dir = fresh_dir("matchA");
    let conf = make_conf(&dir)?;
    let (tripwire, worker, txw) = klukai_types::tripwire::Tripwire::new_simple();
    std::mem::forget(worker);
    std::mem::forget(txw);
    let (agent_a, bookie_a, _t, _h) = klukai_agent::agent::start_with_config(conf, tripwire).await?;
    let client = CorrosionApiClient::new(agent_a.api_addr());
    client.schema(&[Statement::Simple(MSCHEMA.into())]).await?;
    let mut b = make_node(MSCHEMA).await?;
    // some data before the subscription exists
    for _ in 0..rng.random_range(0..4) {
        let s = rand_stmt(&mut rng, nk);
        let _ = api_v1_transactions(Extension(agent_a.clone()), axum::extract::Query(TimeoutParams { timeout: None }), axum::Json(vec![s])).await;
    }
    sleep_ms(900).await;
    let q = Statement::Simple(query_of(kind).into());
    let mut stream = client.subscribe(&q, false, None).await?;
    let (etx, mut erx) = tokio::sync::mpsc::unbounded_channel();
    let reader = tokio::spawn(async move {
        while let Some(ev) = stream.next().await {
            match ev {
                Ok(TypedQueryEvent::Row(rowid, cells)) => {
                    let _ = etx.send(json!({"k": "row", "rowid": rowid.0, "cells": cells.iter().map(vjson).collect::<Vec<_>>()}));
                }
                Ok(TypedQueryEvent::EndOfQuery { change_id, .. }) => {
                    let _ = etx.send(json!({"k": "eoq", "id": change_id.map(|c| c.0).unwrap_or(0)}));
                }
                Ok(TypedQueryEvent::Change(ty, rowid, cells, id)) => {
                    let t = match ty {
                        ChangeType::Insert => "insert",
                        ChangeType::Update => "update",
                        ChangeType::Delete => "delete",
                    };
                    let _ = etx.send(json!({"k": "change", "type": t, "rowid": rowid.0, "cells": cells.iter().map(vjson).collect::<Vec<_>>(), "id": id.0}));
                }
                Ok(TypedQueryEvent::Error(e)) => {
                    let _ = etx.send(json!({"k": "error", "msg": e.to_string()}));
                }
                Ok(_) => {}
                Err(e) => {
                    let _ = etx.send(json!({"k": "client_error", "msg": e.to_string()}));
                    break;
                }
            }
        }
    });
    let mut checkpoints = vec![];
    let mut all_events: Vec<Value> = vec![];
    let mut pending_b: Vec<ChangeV1> = vec![];
    for burst in 0..=bursts {
        if burst > 0 {
            let n = rng.random_range(1..=4);
            for _ in 0..n {
                let roll = rng.random_range(0..100);
                if roll < 45 {
                    let cnt = rng.random_range(1..=2);
                    let stmts: Vec<Statement> = (0..cnt).map(|_| rand_stmt(&mut rng, nk)).collect();
                    let _ = api_v1_transactions(Extension(agent_a.clone()), axum::extract::Query(TimeoutParams { timeout: None }), axum::Json(stmts)).await;
                } else if roll < 75 {
                    let cnt = rng.random_range(1..=2);
                    let stmts: Vec<Statement> = (0..cnt).map(|_| rand_stmt(&mut rng, nk)).collect();
                    let _ = api_v1_transactions(Extension(b.agent.clone()), axum::extract::Query(TimeoutParams { timeout: None }), axum::Json(stmts)).await;
                    sleep_ms(15).await;
                    while let Ok(m) = b.opts.rx_bcast.try_recv() {
                        let (BroadcastInput::AddBroadcast(BroadcastV1::Change(cv)) | BroadcastInput::Rebroadcast(BroadcastV1::Change(cv))) = m;
                        pending_b.push(cv);
                    }
                } else if !pending_b.is_empty() {
                    let cnt = rng.random_range(1..=std::cmp::min(3, pending_b.len()));
                    let mut batch = vec![];
                    for _ in 0..cnt {
                        if pending_b.is_empty() {
                            break;
                        }
                        let i = rng.random_range(0..pending_b.len());
                        batch.push(pending_b.remove(i));
                    }
                    let _ = process_multiple_changes(agent_a.clone(), bookie_a.clone(), with_src(batch), Duration::from_secs(30)).await;
                }
            }
        }
        // let the matcher drain (600 ms batching window)
        sleep_ms(1500).await;
        while let Ok(e) = erx.try_recv() {
            all_events.push(e);
        }
        // the subscribed query on the node database
        let mut rows: Vec<Value> = vec![];
        {
            let conn = agent_a.pool().read().await?;
            let mut st = conn.prepare(query_of(kind))?;
            let ncol = st.column_count();
            let mut r = st.query([])?;
            while let Some(row) = r.next()? {
                let mut cells = vec![];
                for i in 0..ncol {
                    let v: SqliteValue = row.get(i)?;
                    cells.push(vjson(&v));
                }
                rows.push(Value::Array(cells));
            }
        }
        checkpoints.push(json!({"burst": burst, "events_so_far": all_events.len(), "query": rows}));
    }
    reader.abort();
    let mut f = std::io::BufWriter::new(std::fs::File::create(out_path)?);
    writeln!(f, "{}", json!({"seed": seed, "kind": kind, "events": all_events, "checkpoints": checkpoints}))?;
    f.flush()?;
    let _: BTreeMap<u8, u8> = BTreeMap::new();
    Ok(())
}
