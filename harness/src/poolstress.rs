//! pool-stress: concurrent local writes, remote applies, buffered applies, sync-state generation and
//! maintenance on one real agent, with random cancellation; records the write-pool and lock events.
use std::io::Write;
use std::sync::Arc;
use std::sync::atomic::{AtomicU64, Ordering};
use std::time::Duration;

use axum::Extension;
use klukai_agent::agent::process_multiple_changes;
use klukai_agent::agent::util::process_fully_buffered_changes;
use klukai_agent::api::public::{TimeoutParams, api_v1_transactions};
use klukai_types::actor::ActorId;
use klukai_types::api::{SqliteParam, SqliteValue, Statement};
use klukai_types::base::CrsqlDbVersion;
use klukai_types::sync::generate_sync;
use rand::rngs::SmallRng;
use rand::{Rng, SeedableRng};
use serde_json::{Value, json};

use crate::common::*;

pub async fn run(seed: u64, rounds: u64, out_path: &str) -> eyre::Result<()> {
    let mut events = install_sink();
    let node = make_node(SCHEMA).await?;
    let agent = node.agent.clone();
    let bookie = node.bookie.clone();
    let actors: Vec<ActorId> = (0..3).map(|_| ActorId(uuid::Uuid::new_v4())).collect();
    let done = Arc::new(AtomicU64::new(0));
    let mut handles = vec![];
    let mut labels: Vec<(String, String)> = vec![];
    // local writers (priority class)
    for w in 0..3u64 {
        let agent = agent.clone();
        let done = done.clone();
        let h = tokio::spawn(async move {
            let mut rng = SmallRng::seed_from_u64(seed * 100 + w);
            for i in 0..rounds {
                let stmts = vec![Statement::WithParams("INSERT INTO tests (id, text) VALUES (?, ?) ON CONFLICT (id) DO UPDATE SET text = excluded.text".into(), vec![SqliteParam::Integer((w * 1000 + i) as i64 + 1), SqliteParam::Text(format!("w{w}i{i}").into())])];
                let fut = api_v1_transactions(Extension(agent.clone()), axum::extract::Query(TimeoutParams { timeout: None }), axum::Json(stmts));
                if rng.random_range(0..6) == 0 {
                    // cancelled while queued / waiting for the connection
                    let _ = tokio::time::timeout(Duration::from_micros(rng.random_range(1..400)), fut).await;
                } else {
                    let _ = fut.await;
                }
            }
            done.fetch_add(1, Ordering::SeqCst);
        });
        labels.push((h.id().to_string(), "local_write".into()));
        handles.push(h);
    }
    // remote ingest (normal class): complete versions and partial chunks
    for (ai, actor) in actors.iter().enumerate() {
        let (agent, bookie, actor, done) = (agent.clone(), bookie.clone(), *actor, done.clone());
        let h = tokio::spawn(async move {
            let mut rng = SmallRng::seed_from_u64(seed * 100 + 10 + ai as u64);
            let ts = ts_now(&agent);
            for v in 1..=rounds {
                let mk = |lo: u64, hi: u64| {
                    let chs = (lo..=hi).map(|s| mk_change("tests2", (ai as i64 + 1) * 100000 + (v as i64) * 10 + s as i64, "text", SqliteValue::Text(format!("a{ai}v{v}s{s}").into()), 1, v, s, actor, 1)).collect();
                    full_cs(actor, v, chs, lo, hi, 1, ts)
                };
                let batches = if rng.random_range(0..2) == 0 { vec![vec![mk(0, 1)]] } else { vec![vec![mk(1, 1)], vec![mk(0, 0)]] };
                let n = batches.len();
                for b in batches {
                    let fut = process_multiple_changes(agent.clone(), bookie.clone(), with_src(b), Duration::from_secs(30));
                    let _ = fut.await;
                }
                if n == 2 {
                    let _ = process_fully_buffered_changes(&agent, &bookie, actor, CrsqlDbVersion(v), Duration::from_secs(30)).await;
                }
            }
            done.fetch_add(1, Ordering::SeqCst);
        });
        labels.push((h.id().to_string(), "ingest".into()));
        handles.push(h);
    }
    // sync-state generation
    for _g in 0..2u64 {
        let (agent, bookie, done) = (agent.clone(), bookie.clone(), done.clone());
        let h = tokio::spawn(async move {
            for _ in 0..rounds * 3 {
                let _ = generate_sync(&bookie, agent.actor_id()).await;
                tokio::task::yield_now().await;
            }
            done.fetch_add(1, Ordering::SeqCst);
        });
        labels.push((h.id().to_string(), "generate_sync".into()));
        handles.push(h);
    }
    // background maintenance (low class), sometimes cancelled while holding
    {
        let (agent, done) = (agent.clone(), done.clone());
        let h = tokio::spawn(async move {
            let mut rng = SmallRng::seed_from_u64(seed * 100 + 77);
            for _ in 0..rounds {
                let fut = async {
                    if let Ok(conn) = agent.pool().write_low().await {
                        let _ = conn.execute_batch("PRAGMA wal_checkpoint(PASSIVE)");
                        sleep_ms(1).await;
                        drop(conn);
                    }
                };
                if rng.random_range(0..4) == 0 {
                    let _ = tokio::time::timeout(Duration::from_micros(rng.random_range(1..1500)), fut).await;
                } else {
                    fut.await;
                }
            }
            done.fetch_add(1, Ordering::SeqCst);
        });
        labels.push((h.id().to_string(), "maintenance".into()));
        handles.push(h);
    }
    let total = handles.len() as u64;
    // watchdog: everything completes
    let start = std::time::Instant::now();
    let mut completed = true;
    while done.load(Ordering::SeqCst) < total {
        if start.elapsed() > Duration::from_secs(120) {
            completed = false;
            break;
        }
        sleep_ms(20).await;
    }
    let mut f = std::io::BufWriter::new(std::fs::File::create(out_path)?);
    writeln!(f, "{}", json!({"ev": "init", "seed": seed, "rounds": rounds, "tasks": labels.iter().map(|(id, l)| json!({"task": id, "kind": l})).collect::<Vec<_>>()}))?;
    while let Ok(ev) = events.try_recv() {
        let name = ev["ev"].as_str().unwrap_or("");
        if name.starts_with("wp_") || name.starts_with("lock_") {
            writeln!(f, "{}", ev)?;
        }
    }
    writeln!(f, "{}", json!({"ev": "final", "completed": completed, "done": done.load(Ordering::SeqCst), "total": total, "wall_ms": start.elapsed().as_millis() as u64}))?;
    f.flush()?;
    let _ = Value::Null;
    Ok(())
}
