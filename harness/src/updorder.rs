//! upd-order: the candidates of a key's committed history are handed to the real update handle
//! (klukai_types::updates::match_changes -> batch_candidates) in EVERY arrival order, as Updates.tla's
//! Recv(i) allows (per-transaction matching tasks are unordered, local and ingest paths race).
//! Histories of causal lengths: [1,2], [1,2,3], [1,1], [1,2,3,4], [1,2,3,3]; every permutation runs on its own key,
//! once with a flush between arrivals ("spaced") and once with all arrivals inside one batching window ("burst").
//! Output: per key the history, the arrival order and the notifications the listener received.
use std::collections::BTreeMap;
use std::io::Write;
use std::time::Duration;

use klukai_types::api::{ColumnName, SqliteValue, TableName, TypedNotifyEvent};
use klukai_types::base::{CrsqlDbVersion, CrsqlSeq};
use klukai_types::change::Change;
use klukai_types::pubsub::pack_columns;
use klukai_types::updates::{UpdatesManager, match_changes};
use serde_json::json;

use crate::common::*;

fn perms(n: usize) -> Vec<Vec<usize>> {
    if n == 1 {
        return vec![vec![0]];
    }
    let mut out = vec![];
    for p in perms(n - 1) {
        for i in 0..n {
            let mut q = p.clone();
            q.insert(i, n - 1);
            out.push(q);
        }
    }
    out
}

/// the changes of the transaction that moved `key` to causal length `cl` (prev: the causal length before it)
fn tx_changes(key: i64, cl: i64, prev: i64, dbv: u64) -> Vec<Change> {
    let mk = |cid: &str, val: SqliteValue, seq: u64| Change {
        table: TableName("tests".into()),
        pk: pack_columns(&[key.into()]).unwrap(),
        cid: ColumnName(cid.into()),
        val,
        col_version: 1,
        db_version: CrsqlDbVersion(dbv),
        seq: CrsqlSeq(seq),
        site_id: [7u8; 16],
        cl,
    };
    if cl % 2 == 0 {
        vec![mk("-1", SqliteValue::Null, 0)]
    } else if cl != prev && cl > 1 {
        vec![mk("-1", SqliteValue::Null, 0), mk("text", SqliteValue::Text(format!("v{dbv}").into()), 1)]
    } else {
        vec![mk("text", SqliteValue::Text(format!("v{dbv}").into()), 0)]
    }
}

async fn drain(rx: &mut tokio::sync::mpsc::Receiver<klukai_types::api::NotifyEvent>, notes: &mut BTreeMap<i64, Vec<String>>, idle_ms: u64) {
    while let Ok(Some(ev)) = tokio::time::timeout(Duration::from_millis(idle_ms), rx.recv()).await {
        if let TypedNotifyEvent::Notify(kind, pk) = ev {
            let k = pk.first().and_then(|v| v.as_integer().copied()).unwrap_or(-1);
            notes.entry(k).or_default().push(format!("{kind:?}").to_lowercase());
        }
    }
}

pub async fn run(out_path: &str) -> eyre::Result<()> {
    let node = make_node(SCHEMA).await?;
    let manager = UpdatesManager::default();
    let schema = node.agent.schema().read().clone();
    let (_handle, created) = manager.get_or_insert("tests", &schema, node.agent.pool(), node.tripwire.clone())?;
    let mut evt_rx = created.ok_or_else(|| eyre::eyre!("no new handle"))?.evt_rx;

    let histories: Vec<Vec<i64>> = vec![vec![1, 2], vec![1, 2, 3], vec![1, 1], vec![1, 2, 3, 4], vec![1, 2, 3, 3]];
    // (key, mode, history, order)
    let mut cases: Vec<(i64, &'static str, Vec<i64>, Vec<usize>)> = vec![];
    let mut key = 0i64; // keys stay below 128: larger integer keys come back sign-mangled from unpack_columns (codec, C09: not claimed)
    for mode in ["spaced", "burst"] {
        for h in &histories {
            for p in perms(h.len()) {
                key += 1;
                cases.push((key, mode, h.clone(), p));
            }
        }
    }
    let mut notes: BTreeMap<i64, Vec<String>> = BTreeMap::new();
    let mut dbv = 0u64;
    // db versions in commit order per key
    let mut dbvs: BTreeMap<i64, Vec<u64>> = BTreeMap::new();
    for (k, _, h, _) in &cases {
        let v: Vec<u64> = h.iter().map(|_| { dbv += 1; dbv }).collect();
        dbvs.insert(*k, v);
    }
    let maxlen = histories.iter().map(|h| h.len()).max().unwrap();
    for round in 0..maxlen {
        for (k, mode, h, p) in &cases {
            if *mode != "spaced" || round >= h.len() {
                continue;
            }
            let i = p[round];
            let prev = if i == 0 { 0 } else { h[i - 1] };
            let d = dbvs[k][i];
            match_changes(&manager, &tx_changes(*k, h[i], prev, d), CrsqlDbVersion(d));
        }
        // the batching window is 600 ms; the event channel is bounded, so receive until it stays quiet
        drain(&mut evt_rx, &mut notes, 2000).await;
    }
    for (k, mode, h, p) in &cases {
        if *mode != "burst" {
            continue;
        }
        for &i in p {
            let prev = if i == 0 { 0 } else { h[i - 1] };
            let d = dbvs[k][i];
            match_changes(&manager, &tx_changes(*k, h[i], prev, d), CrsqlDbVersion(d));
        }
    }
    drain(&mut evt_rx, &mut notes, 3000).await;

    let mut f = std::io::BufWriter::new(std::fs::File::create(out_path)?);
    for (k, mode, h, p) in &cases {
        writeln!(f, "{}", json!({"key": k, "mode": mode, "history": h, "order": p, "notes": notes.get(k).cloned().unwrap_or_default()}))?;
    }
    f.flush()?;
    Ok(())
}
