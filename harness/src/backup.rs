//! backup-probe: source databases built on real agents (changes authored by the source, by a foreign actor and
//! by the future destination, plus a deletion), the real `corrosion backup` / `corrosion restore` binary, and a
//! comparison of crsql_changes with the authors' actor ids; a reader process loops on the destination database
//! while a restore runs over it.  db-reader: that reader.
use std::io::Write;
use std::process::Command;
use std::time::Duration;

use axum::Extension;
use klukai_agent::agent::process_multiple_changes;
use klukai_agent::api::public::{TimeoutParams, api_v1_transactions};
use klukai_types::actor::ActorId;
use klukai_types::api::{SqliteValue, Statement};
use klukai_types::broadcast::{BroadcastInput, BroadcastV1};
use klukai_types::sqlite::CrConn;
use serde_json::{Value, json};

use crate::common::*;

fn changes_of(path: &std::path::Path) -> eyre::Result<(Vec<Value>, String)> {
    let conn = CrConn::init(rusqlite::Connection::open(path)?)?;
    let mut st = conn.prepare(r#"SELECT "table", hex(pk), cid, quote(val), col_version, cl, hex(site_id) FROM crsql_changes ORDER BY 1, 2, 3"#)?;
    let rows: Vec<Value> = st
        .query_map([], |r| Ok(json!([r.get::<_, String>(0)?, r.get::<_, String>(1)?, r.get::<_, String>(2)?, r.get::<_, String>(3)?, r.get::<_, i64>(4)?, r.get::<_, i64>(5)?, r.get::<_, String>(6)?])))?
        .collect::<rusqlite::Result<_>>()?;
    let me: String = conn.query_row("SELECT hex(crsql_site_id())", [], |r| r.get(0))?;
    Ok((rows, me))
}

fn site_table(path: &std::path::Path) -> eyre::Result<Vec<Value>> {
    let conn = rusqlite::Connection::open_with_flags(path, rusqlite::OpenFlags::SQLITE_OPEN_READ_ONLY)?;
    let mut st = conn.prepare("SELECT ordinal, hex(site_id) FROM crsql_site_id ORDER BY ordinal")?;
    let rows: Vec<Value> = st.query_map([], |r| Ok(json!([r.get::<_, i64>(0)?, r.get::<_, String>(1)?])))?.collect::<rusqlite::Result<_>>()?;
    Ok(rows)
}

fn write_conf(dir: &std::path::Path) -> std::io::Result<std::path::PathBuf> {
    let p = dir.join("config.toml");
    std::fs::write(
        &p,
        format!(
            "[db]\npath = \"{}\"\n\n[gossip]\naddr = \"127.0.0.1:0\"\n\n[api]\naddr = \"127.0.0.1:0\"\n\n[admin]\npath = \"{}\"\n",
            dir.join("corrosion.db").display(),
            dir.join("admin-cli.sock").display()
        ),
    )?;
    Ok(p)
}

fn run_bin(bin: &str, conf: &std::path::Path, args: &[&str]) -> (bool, String) {
    match Command::new(bin).arg("-c").arg(conf).args(args).output() {
        Ok(o) => (o.status.success(), format!("{}{}", String::from_utf8_lossy(&o.stdout), String::from_utf8_lossy(&o.stderr)).chars().rev().take(600).collect::<String>().chars().rev().collect()),
        Err(e) => (false, e.to_string()),
    }
}

pub fn db_reader(path: &str, ms: u64) -> eyre::Result<()> {
    let deadline = std::time::Instant::now() + Duration::from_millis(ms);
    let out = std::io::stdout();
    let mut out = out.lock();
    while std::time::Instant::now() < deadline {
        let res = (|| -> rusqlite::Result<String> {
            let conn = rusqlite::Connection::open_with_flags(path, rusqlite::OpenFlags::SQLITE_OPEN_READ_ONLY)?;
            conn.busy_timeout(Duration::from_millis(50))?;
            let tx = conn.unchecked_transaction()?;
            let a: (i64, i64) = tx.query_row("SELECT COUNT(*), COALESCE(SUM(id), 0) FROM tests", [], |r| Ok((r.get(0)?, r.get(1)?)))?;
            let b: String = tx.query_row("SELECT COALESCE(SUM(LENGTH(text)), 0) || ':' || COALESCE(MIN(text), '') || ':' || COALESCE(MAX(text), '') FROM tests", [], |r| r.get(0))?;
            let c: i64 = tx.query_row("SELECT COUNT(*) FROM tests__crsql_clock", [], |r| r.get(0))?;
            Ok(format!("{}|{}|{}|{}", a.0, a.1, b, c))
        })();
        match res {
            Ok(d) => writeln!(out, "OK {d}")?,
            Err(e) => writeln!(out, "REFUSED {e}")?,
        }
        std::thread::sleep(Duration::from_millis(2));
    }
    Ok(())
}

pub async fn run(bin: &str, out_path: &str) -> eyre::Result<()> {
    let mut src = make_node(SCHEMA).await?;
    let mut d2 = make_node(SCHEMA).await?;
    let tx = |agent: klukai_types::agent::Agent, sql: String| async move {
        let _ = api_v1_transactions(Extension(agent), axum::extract::Query(TimeoutParams { timeout: None }), axum::Json(vec![Statement::Simple(sql)])).await;
    };
    tx(src.agent.clone(), "INSERT INTO tests (id, text) VALUES (1, 'src-one'), (2, 'src-two')".into()).await;
    // a foreign actor's changes
    let foreign = ActorId(uuid::Uuid::new_v4());
    let ts = ts_now(&src.agent);
    let f1 = full_cs(foreign, 1, vec![mk_change("tests", 10, "text", SqliteValue::Text("foreign-ten".into()), 1, 1, 0, foreign, 1), mk_change("tests", 11, "text", SqliteValue::Text("foreign-eleven".into()), 1, 1, 1, foreign, 1)], 0, 1, 1, ts);
    process_multiple_changes(src.agent.clone(), src.bookie.clone(), with_src(vec![f1]), Duration::from_secs(30)).await?;
    // the future destination authored something the source has
    tx(d2.agent.clone(), "INSERT INTO tests (id, text) VALUES (20, 'dest-twenty')".into()).await;
    let mut from_d2 = vec![];
    for _ in 0..200 {
        while let Ok(m) = d2.opts.rx_bcast.try_recv() {
            let (BroadcastInput::AddBroadcast(BroadcastV1::Change(cv)) | BroadcastInput::Rebroadcast(BroadcastV1::Change(cv))) = m;
            from_d2.push(cv);
        }
        if !from_d2.is_empty() {
            break;
        }
        sleep_ms(50).await;
    }
    process_multiple_changes(src.agent.clone(), src.bookie.clone(), with_src(from_d2), Duration::from_secs(30)).await?;
    // bulk, so that the byte copy of the restore takes a while: the destination gets rows the source never sees
    tx(d2.agent.clone(), "WITH RECURSIVE c(x) AS (SELECT 1000 UNION ALL SELECT x + 1 FROM c WHERE x < 4000) INSERT INTO tests (id, text) SELECT x, 'dest-bulk-' || x || '-' || hex(randomblob(60)) FROM c".into()).await;
    tx(src.agent.clone(), "WITH RECURSIVE c(x) AS (SELECT 5000 UNION ALL SELECT x + 1 FROM c WHERE x < 5600) INSERT INTO tests (id, text) SELECT x, 'src-bulk-' || x || '-' || hex(randomblob(40)) FROM c".into()).await;
    tx(src.agent.clone(), "DELETE FROM tests WHERE id = 2".into()).await;
    tx(src.agent.clone(), "UPDATE tests SET text = 'src-over-foreign' WHERE id = 11".into()).await;
    // node-local state that must not travel
    {
        let conn = src.agent.pool().write_priority().await?;
        conn.execute("INSERT INTO __corro_members (actor_id, address, foca_state) VALUES (?, '127.0.0.1:9999', '{}')", [foreign])?;
    }
    while src.opts.rx_bcast.try_recv().is_ok() {}
    let (truth, src_actor) = changes_of(&src.dir.join("corrosion.db"))?;
    let src_conf = write_conf(&src.dir)?;
    let bk = fresh_dir("backup").join("backup.db");
    let (ok_b, log_b) = run_bin(bin, &src_conf, &["backup", bk.to_str().unwrap()]);
    let mut result = json!({"backup_ok": ok_b, "backup_log": log_b, "source_actor": src_actor, "truth": truth, "site_source": site_table(&src.dir.join("corrosion.db"))?});
    if ok_b {
        let bconn = rusqlite::Connection::open(&bk)?;
        let members: i64 = bconn.query_row("SELECT COUNT(*) FROM __corro_members", [], |r| r.get(0)).unwrap_or(-1);
        let ord0: i64 = bconn.query_row("SELECT COUNT(*) FROM crsql_site_id WHERE ordinal = 0", [], |r| r.get(0)).unwrap_or(-1);
        drop(bconn);
        merge(&mut result, json!({"backup_members_rows": members, "backup_has_ordinal0": ord0, "site_backup": site_table(&bk)?}));
        // (a) restore onto a fresh node
        let d1dir = fresh_dir("restoreD1");
        let d1conf = write_conf(&d1dir)?;
        let bk1 = bk.with_file_name("backup1.db");
        std::fs::copy(&bk, &bk1)?;
        let (ok1, log1) = run_bin(bin, &d1conf, &["restore", bk1.to_str().unwrap()]);
        let fresh = if ok1 { Some(changes_of(&d1dir.join("corrosion.db"))?) } else { None };
        merge(&mut result, json!({"fresh": {"ok": ok1, "log": log1, "changes": fresh.as_ref().map(|f| f.0.clone()), "actor": fresh.as_ref().map(|f| f.1.clone()), "site": if ok1 { site_table(&d1dir.join("corrosion.db"))? } else { vec![] }}}));
        // (b) restore over the live database of d2, keeping its actor id, with a reader in another process
        let d2_actor = format!("{}", d2.agent.actor_id().0.simple()).to_uppercase();
        let d2conf = write_conf(&d2.dir)?;
        std::fs::create_dir_all(d2.dir.join("subscriptions").join("dummy"))?;
        let before_digest = {
            let conn = d2.agent.pool().read().await?;
            let a: (i64, i64) = conn.query_row("SELECT COUNT(*), COALESCE(SUM(id), 0) FROM tests", [], |r| Ok((r.get(0)?, r.get(1)?)))?;
            let b: String = conn.query_row("SELECT COALESCE(SUM(LENGTH(text)), 0) || ':' || COALESCE(MIN(text), '') || ':' || COALESCE(MAX(text), '') FROM tests", [], |r| r.get(0))?;
            let c: i64 = conn.query_row("SELECT COUNT(*) FROM tests__crsql_clock", [], |r| r.get(0))?;
            format!("{}|{}|{}|{}", a.0, a.1, b, c)
        };
        let me = std::env::current_exe()?;
        let reader = Command::new(me).arg("db-reader").arg(d2.dir.join("corrosion.db")).arg("4000").stdout(std::process::Stdio::piped()).spawn()?;
        sleep_ms(300).await;
        let bk2 = bk.with_file_name("backup2.db");
        std::fs::copy(&bk, &bk2)?;
        let (ok2, log2) = run_bin(bin, &d2conf, &["restore", bk2.to_str().unwrap(), "--self-actor-id"]);
        let rout = reader.wait_with_output()?;
        let reads: Vec<String> = String::from_utf8_lossy(&rout.stdout).lines().map(|l| l.to_string()).collect();
        let kept = if ok2 { Some(changes_of(&d2.dir.join("corrosion.db"))?) } else { None };
        let after_digest = {
            let c = rusqlite::Connection::open(d2.dir.join("corrosion.db"))?;
            let a: (i64, i64) = c.query_row("SELECT COUNT(*), COALESCE(SUM(id), 0) FROM tests", [], |r| Ok((r.get(0)?, r.get(1)?)))?;
            let b: String = c.query_row("SELECT COALESCE(SUM(LENGTH(text)), 0) || ':' || COALESCE(MIN(text), '') || ':' || COALESCE(MAX(text), '') FROM tests", [], |r| r.get(0))?;
            let cc: i64 = c.query_row("SELECT COUNT(*) FROM tests__crsql_clock", [], |r| r.get(0))?;
            format!("{}|{}|{}|{}", a.0, a.1, b, cc)
        };
        // connections that were open (and had pages cached) before the restore: the running agent's read pool
        let mut pool_digests = vec![];
        for _ in 0..3 {
            let conn = d2.agent.pool().read().await?;
            let r = (|| -> rusqlite::Result<String> {
                let a: (i64, i64) = conn.query_row("SELECT COUNT(*), COALESCE(SUM(id), 0) FROM tests", [], |r| Ok((r.get(0)?, r.get(1)?)))?;
                let b: String = conn.query_row("SELECT COALESCE(SUM(LENGTH(text)), 0) || ':' || COALESCE(MIN(text), '') || ':' || COALESCE(MAX(text), '') FROM tests", [], |r| r.get(0))?;
                let c: i64 = conn.query_row("SELECT COUNT(*) FROM tests__crsql_clock", [], |r| r.get(0))?;
                Ok(format!("{}|{}|{}|{}", a.0, a.1, b, c))
            })();
            pool_digests.push(match r {
                Ok(d) => d,
                Err(e) => format!("REFUSED {e}"),
            });
        }
        let mut distinct_reads: Vec<String> = reads.iter().filter(|l| l.starts_with("OK ")).map(|l| l[3..].to_string()).collect();
        distinct_reads.sort();
        distinct_reads.dedup();
        merge(
            &mut result,
            json!({"self": {"ok": ok2, "log": log2, "changes": kept.as_ref().map(|f| f.0.clone()), "actor": kept.as_ref().map(|f| f.1.clone()), "wanted_actor": d2_actor, "site": if ok2 { site_table(&d2.dir.join("corrosion.db"))? } else { vec![] },
                             "subscriptions_dir_left": d2.dir.join("subscriptions").exists(), "old_digest": before_digest, "new_digest": after_digest,
                             "pool_reads_after": pool_digests, "reads_ok": reads.iter().filter(|l| l.starts_with("OK ")).count(), "reads_refused": reads.iter().filter(|l| l.starts_with("REFUSED")).count(), "distinct_reads": distinct_reads}}),
        );
    }
    let mut f = std::io::BufWriter::new(std::fs::File::create(out_path)?);
    writeln!(f, "{}", result)?;
    f.flush()?;
    Ok(())
}

/// restore-cache-probe: a plain SQLite destination in WAL (or rollback) mode, cleanly closed; a reader connection C1
/// opened afterwards that has read PART of the table (so it holds some pages in its cache); the real `corrosion
/// restore`; a second connection C2 that reads first after the restore; then C1 reads everything.
pub fn cache_probe(bin: &str, out_path: &str) -> eyre::Result<()> {
    let mut results = vec![];
    for (mode, same_shape) in [("wal", true), ("wal", false), ("delete", true), ("delete", false)] {
        let dir = fresh_dir("cacheprobe");
        let conf = write_conf(&dir)?;
        let dst = dir.join("corrosion.db");
        let src = dir.join("snapshot.db");
        let fill = |p: &std::path::Path, tag: &str, n: i64, mode: &str| -> rusqlite::Result<()> {
            let c = rusqlite::Connection::open(p)?;
            c.execute_batch(&format!("PRAGMA journal_mode = {mode}; CREATE TABLE tests (id INTEGER NOT NULL PRIMARY KEY, text TEXT NOT NULL DEFAULT '');"))?;
            c.execute(
                &format!("WITH RECURSIVE c(x) AS (SELECT 1 UNION ALL SELECT x + 1 FROM c WHERE x < {n}) INSERT INTO tests (id, text) SELECT x, '{tag}-' || x || '-' || printf('%0200d', x) FROM c"),
                [],
            )?;
            if mode == "wal" {
                c.execute_batch("PRAGMA wal_checkpoint(TRUNCATE);")?;
            }
            Ok(())
        };
        // same_shape: both files went through the same number of transactions and have the same size
        fill(&dst, "old", 400, mode)?;
        fill(&src, "new", if same_shape { 400 } else { 650 }, "wal")?;
        let digest = |c: &rusqlite::Connection| -> String {
            match c.query_row("SELECT COUNT(*) || '|' || SUM(id) || '|' || SUM(text LIKE 'old-%') || '|' || SUM(text LIKE 'new-%') FROM tests", [], |r| r.get::<_, String>(0)) {
                Ok(d) => d,
                Err(e) => format!("REFUSED {e}"),
            }
        };
        let old_digest = digest(&rusqlite::Connection::open(&dst)?);
        let new_digest = digest(&rusqlite::Connection::open(&src)?);
        // C1: opened on the quiescent destination, reads a few rows only
        let c1 = rusqlite::Connection::open(&dst)?;
        let partial: String = c1.query_row("SELECT GROUP_CONCAT(substr(text, 1, 3)) FROM tests WHERE id IN (1, 200)", [], |r| r.get(0))?;
        let (ok, log) = run_bin(bin, &conf, &["restore", src.to_str().unwrap()]);
        let c2_first = digest(&rusqlite::Connection::open(&dst)?);
        let c1_after = digest(&c1);
        let c1_again = digest(&c1);
        results.push(json!({"mode": mode, "same_shape": same_shape, "restore_ok": ok, "log": log, "old": old_digest, "new": new_digest, "c1_partial_before": partial,
                            "c2_first_after": c2_first, "c1_after": c1_after, "c1_again": c1_again}));
    }
    let mut f = std::io::BufWriter::new(std::fs::File::create(out_path)?);
    writeln!(f, "{}", json!({"cases": results}))?;
    f.flush()?;
    Ok(())
}

/// db-reader-pinned: a reader process whose open read transaction sits on WAL read mark `k` (k overlapping read
/// transactions begun at k different WAL positions, the first k-1 finished).  It reads table a, announces itself, waits for
/// the restore (or a few seconds), reads table b in the SAME transaction and reports both generations.
pub fn reader_pinned(db: &str, k: usize, dir: &str) -> eyre::Result<()> {
    let dir = std::path::PathBuf::from(dir);
    let writer = rusqlite::Connection::open(db)?;
    let mut readers = vec![];
    for n in 1..=k {
        writer.execute("UPDATE ticks SET n = ? WHERE id = 1", [n as i64])?;
        let r = rusqlite::Connection::open(db)?;
        r.execute_batch("BEGIN")?;
        let _seen: i64 = r.query_row("SELECT n FROM ticks", [], |row| row.get(0))?;
        readers.push(r);
    }
    for r in &readers[..k - 1] {
        r.execute_batch("COMMIT")?;
    }
    let last = &readers[k - 1];
    let gen_a: i64 = last.query_row("SELECT generation FROM a", [], |row| row.get(0))?;
    std::fs::write(dir.join("reader-ready"), b"")?;
    for _ in 0..80 {
        if dir.join("restore-done").exists() {
            break;
        }
        std::thread::sleep(Duration::from_millis(50));
    }
    let gen_b = match last.query_row("SELECT generation FROM b", [], |row| row.get::<_, i64>(0)) {
        Ok(g) => g.to_string(),
        Err(e) => format!("refused: {e}"),
    };
    let _ = last.execute_batch("COMMIT");
    println!("{gen_a} {gen_b}");
    Ok(())
}

/// restore-pin-probe: for every read mark k the real `corrosion restore` runs while a reader process is pinned on it.
pub fn pin_probe(bin: &str, out_path: &str) -> eyre::Result<()> {
    let seed = |p: &std::path::Path, generation: i64| -> rusqlite::Result<()> {
        let c = rusqlite::Connection::open(p)?;
        c.execute_batch("PRAGMA journal_mode = WAL; CREATE TABLE a (generation INTEGER); CREATE TABLE b (generation INTEGER); CREATE TABLE ticks (id INTEGER PRIMARY KEY, n INTEGER); INSERT INTO ticks VALUES (1, 0);")?;
        c.execute("INSERT INTO a VALUES (?)", [generation])?;
        c.execute("INSERT INTO b VALUES (?)", [generation])?;
        // some bulk so that a and b live on different pages than anything cached by the first read
        c.execute_batch("CREATE TABLE pad (x TEXT); WITH RECURSIVE c(i) AS (SELECT 1 UNION ALL SELECT i + 1 FROM c WHERE i < 300) INSERT INTO pad SELECT printf('%0300d', i) FROM c; PRAGMA wal_checkpoint(TRUNCATE);")?;
        Ok(())
    };
    let me = std::env::current_exe()?;
    let mut cases = vec![];
    for k in 1..=4usize {
        let dir = fresh_dir("pinprobe");
        let conf = write_conf(&dir)?;
        let dst = dir.join("corrosion.db");
        let src = dir.join("snapshot.db");
        seed(&dst, 1)?;
        seed(&src, 2)?;
        let child = Command::new(&me).arg("db-reader-pinned").arg(&dst).arg(k.to_string()).arg(&dir).stdout(std::process::Stdio::piped()).stderr(std::process::Stdio::piped()).spawn()?;
        let mut ready = false;
        for _ in 0..2400 {
            if dir.join("reader-ready").exists() {
                ready = true;
                break;
            }
            std::thread::sleep(Duration::from_millis(25));
        }
        let before = std::fs::read(&dst)?;
        let t0 = std::time::Instant::now();
        let (ok, log) = run_bin(bin, &conf, &["restore", src.to_str().unwrap()]);
        let took = t0.elapsed().as_millis() as u64;
        std::fs::write(dir.join("restore-done"), b"")?;
        let o = child.wait_with_output()?;
        let report = String::from_utf8_lossy(&o.stdout).trim().to_string();
        let untouched_if_failed = if ok { None } else { Some(std::fs::read(&dst)? == before) };
        cases.push(json!({"read_mark": k, "reader_ready": ready, "restore_ok": ok, "restore_ms": took, "reader_report": report, "reader_stderr": String::from_utf8_lossy(&o.stderr).chars().take(300).collect::<String>(),
                          "untouched_if_failed": untouched_if_failed, "log": log}));
    }
    let mut f = std::io::BufWriter::new(std::fs::File::create(out_path)?);
    writeln!(f, "{}", json!({"cases": cases}))?;
    f.flush()?;
    Ok(())
}
