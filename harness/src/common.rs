//! Shared harness code: building real agents, hand-built changesets, projections real -> abstract.
#![allow(dead_code)]
use std::collections::BTreeSet;
use std::ops::RangeInclusive;
use std::path::PathBuf;
use std::sync::Arc;
use std::time::{Duration, Instant};

use axum::{Extension, Json as AxJson};
use klukai_agent::agent::{AgentOptions, setup};
use klukai_agent::api::public::api_v1_db_schema;
use klukai_types::actor::ActorId;
use klukai_types::agent::{Agent, BookedVersions, Bookie};
use klukai_types::api::{ColumnName, SqliteValue, TableName};
use klukai_types::base::{CrsqlDbVersion, CrsqlSeq};
use klukai_types::broadcast::{ChangeSource, ChangeV1, Changeset, Timestamp};
use klukai_types::change::Change;
use klukai_types::config::Config;
use klukai_types::pubsub::pack_columns;
use klukai_types::sync::generate_sync;
use klukai_types::tripwire::Tripwire;
use serde_json::{Value, json};

pub const SCHEMA: &str = r#"
CREATE TABLE IF NOT EXISTS tests (
    id INTEGER NOT NULL PRIMARY KEY,
    text TEXT NOT NULL DEFAULT ""
) WITHOUT ROWID;
CREATE TABLE IF NOT EXISTS tests2 (
    id INTEGER NOT NULL PRIMARY KEY,
    text TEXT NOT NULL DEFAULT ""
) WITHOUT ROWID;
"#;

pub struct Node {
    pub agent: Agent,
    pub bookie: Bookie,
    pub opts: AgentOptions,
    pub dir: PathBuf,
    pub tripwire: Tripwire,
    pub conf: Config,
}

pub fn base_dir() -> PathBuf {
    let base = std::env::var("TMPDIR").unwrap_or_else(|_| "/verif/work".into());
    PathBuf::from(base)
}

pub fn fresh_dir(tag: &str) -> PathBuf {
    let d = base_dir().join(format!("{}-{}-{}", tag, std::process::id(), uuid::Uuid::new_v4().simple()));
    std::fs::create_dir_all(&d).unwrap();
    d
}

pub fn make_conf(dir: &PathBuf) -> eyre::Result<Config> {
    Ok(Config::builder()
        .api_addr("127.0.0.1:0".parse()?)
        .gossip_addr("127.0.0.1:0".parse()?)
        .admin_path(dir.join("admin.sock").display().to_string())
        .db_path(dir.join("corrosion.db").display().to_string())
        .build()?)
}

/// A real agent from `setup()` whose autonomous loops are NOT started: the harness owns the
/// receiving ends of the channels and therefore is the scheduler and the network.
pub async fn make_node(schema: &str) -> eyre::Result<Node> {
    let dir = fresh_dir("node");
    make_node_in(dir, schema).await
}

pub async fn make_node_in(dir: PathBuf, schema: &str) -> eyre::Result<Node> {
    let conf = make_conf(&dir)?;
    let (tripwire, _worker, _tx) = Tripwire::new_simple();
    std::mem::forget(_worker);
    std::mem::forget(_tx);
    let (agent, opts) = setup(conf.clone(), tripwire.clone()).await?;
    let bookie = Bookie::new_with_registry(Default::default(), opts.lock_registry.clone());
    {
        let mut w = bookie.write::<&str, _>("init", None).await;
        w.insert(agent.actor_id(), agent.booked().clone());
    }
    // wait for the own Booked to be loaded (setup spawns the loader holding the write lock)
    {
        let _ = agent.booked().read::<&str, _>("vh-init", None).await;
    }
    if !schema.is_empty() {
        let (status, body) = api_v1_db_schema(Extension(agent.clone()), AxJson(vec![schema.to_string()])).await;
        if status != http::StatusCode::OK {
            eyre::bail!("schema failed: {status} {:?}", serde_json::to_string(&body.0).ok());
        }
    }
    Ok(Node { agent, bookie, opts, dir, tripwire, conf })
}

pub fn ts_now(agent: &Agent) -> Timestamp {
    Timestamp::from(agent.clock().new_timestamp())
}

pub fn pk_int(id: i64) -> Vec<u8> {
    pack_columns(&[SqliteValue::Integer(id)]).unwrap()
}

pub fn mk_change(table: &str, id: i64, cid: &str, val: SqliteValue, col_version: i64, dbv: u64, seq: u64, site: ActorId, cl: i64) -> Change {
    Change {
        table: TableName(table.into()),
        pk: pk_int(id),
        cid: ColumnName(cid.into()),
        val,
        col_version,
        db_version: CrsqlDbVersion(dbv),
        seq: CrsqlSeq(seq),
        site_id: site.to_bytes(),
        cl,
    }
}

pub fn full_cs(actor: ActorId, v: u64, changes: Vec<Change>, lo: u64, hi: u64, last: u64, ts: Timestamp) -> ChangeV1 {
    ChangeV1 {
        actor_id: actor,
        changeset: Changeset::Full {
            version: CrsqlDbVersion(v),
            changes,
            seqs: CrsqlSeq(lo)..=CrsqlSeq(hi),
            last_seq: CrsqlSeq(last),
            ts,
        },
    }
}

pub fn empty_cs(actor: ActorId, lo: u64, hi: u64, ts: Timestamp) -> ChangeV1 {
    ChangeV1 {
        actor_id: actor,
        changeset: Changeset::Empty { versions: CrsqlDbVersion(lo)..=CrsqlDbVersion(hi), ts: Some(ts) },
    }
}

pub fn with_src(v: Vec<ChangeV1>) -> Vec<(ChangeV1, ChangeSource, Instant)> {
    v.into_iter().map(|c| (c, ChangeSource::Sync, Instant::now())).collect()
}

pub fn runs_u64<I: IntoIterator<Item = RangeInclusive<u64>>>(it: I) -> Value {
    let mut v: Vec<(u64, u64)> = it.into_iter().map(|r| (*r.start(), *r.end())).collect();
    v.sort();
    Value::Array(v.into_iter().map(|(a, b)| json!([a, b])).collect())
}

/// in-memory BookedVersions -> abstract
pub fn proj_booked(bv: &BookedVersions) -> Value {
    let needed = runs_u64(bv.needed().iter().map(|r| r.start().0..=r.end().0));
    let partials: Vec<Value> = bv
        .partials
        .iter()
        .map(|(v, p)| json!({"v": v.0, "seqs": runs_u64(p.seqs.iter().map(|r| r.start().0..=r.end().0)), "last": p.last_seq.0}))
        .collect();
    json!({"max": bv.last().map(|v| v.0).unwrap_or(0), "needed": needed, "partials": partials})
}

/// what generate_sync advertises for `actor`
pub async fn proj_adv(bookie: &Bookie, self_id: ActorId, actor: ActorId) -> Value {
    let st = generate_sync(bookie, self_id).await;
    let head = st.heads.get(&actor).map(|v| v.0).unwrap_or(0);
    let need = runs_u64(st.need.get(&actor).cloned().unwrap_or_default().into_iter().map(|r| r.start().0..=r.end().0));
    let mut partial: Vec<(u64, Value)> = st
        .partial_need
        .get(&actor)
        .map(|m| m.iter().map(|(v, rs)| (v.0, runs_u64(rs.iter().map(|r| r.start().0..=r.end().0)))).collect())
        .unwrap_or_default();
    partial.sort_by_key(|x| x.0);
    let partial: Vec<Value> = partial.into_iter().map(|(v, m)| json!({"v": v, "missing": m})).collect();
    json!({"head": head, "need": need, "partial": partial})
}

/// durable bookkeeping rows of `actor` -> abstract
pub fn proj_rows(conn: &rusqlite::Connection, actor: ActorId) -> eyre::Result<Value> {
    let mut gaps: BTreeSet<(u64, u64)> = BTreeSet::new();
    {
        let mut st = conn.prepare_cached("SELECT start, end FROM __corro_bookkeeping_gaps WHERE actor_id = ?")?;
        let mut rows = st.query([actor])?;
        while let Some(r) = rows.next()? {
            gaps.insert((r.get::<_, i64>(0)? as u64, r.get::<_, i64>(1)? as u64));
        }
    }
    let mut seqs: BTreeSet<(u64, u64, u64, u64)> = BTreeSet::new();
    {
        let mut st = conn.prepare_cached("SELECT db_version, start_seq, end_seq, last_seq FROM __corro_seq_bookkeeping WHERE site_id = ?")?;
        let mut rows = st.query([actor])?;
        while let Some(r) = rows.next()? {
            seqs.insert((r.get::<_, i64>(0)? as u64, r.get::<_, i64>(1)? as u64, r.get::<_, i64>(2)? as u64, r.get::<_, i64>(3)? as u64));
        }
    }
    let mut bufs: BTreeSet<(u64, u64)> = BTreeSet::new();
    {
        let mut st = conn.prepare_cached("SELECT db_version, seq FROM __corro_buffered_changes WHERE site_id = ?")?;
        let mut rows = st.query([actor])?;
        while let Some(r) = rows.next()? {
            bufs.insert((r.get::<_, i64>(0)? as u64, r.get::<_, i64>(1)? as u64));
        }
    }
    let dbv: Option<i64> = {
        use rusqlite::OptionalExtension;
        conn.prepare_cached("SELECT db_version FROM crsql_db_versions WHERE site_id = ?")?
            .query_row([actor], |r| r.get(0))
            .optional()?
    };
    Ok(json!({
        "gapRows": gaps.into_iter().map(|(a,b)| json!([a,b])).collect::<Vec<_>>(),
        "seqRows": seqs.into_iter().map(|(a,b,c,d)| json!([a,b,c,d])).collect::<Vec<_>>(),
        "bufRows": bufs.into_iter().map(|(a,b)| json!([a,b])).collect::<Vec<_>>(),
        "dbv": dbv.unwrap_or(0),
    }))
}

pub fn merge(a: &mut Value, b: Value) {
    if let (Value::Object(a), Value::Object(b)) = (a, b) {
        for (k, v) in b {
            a.insert(k, v);
        }
    }
}

/// events from the feature-gated hooks, delivered through a channel
pub fn install_sink() -> tokio::sync::mpsc::UnboundedReceiver<Value> {
    let (tx, rx) = tokio::sync::mpsc::unbounded_channel();
    klukai_types::verif::set_sink(Some(Box::new(move |v| {
        let _ = tx.send(v);
    })));
    rx
}

pub async fn sleep_ms(ms: u64) {
    tokio::time::sleep(Duration::from_millis(ms)).await
}

pub fn arc<T>(t: T) -> Arc<T> {
    Arc::new(t)
}
