//! replay-chunker / replay-chunkrange: run the real ChunkedChanges iterator / chunk_range on every
//! case enumerated by specs/Chunker.tla / specs/ChunkRange.tla and print what the real code produced.
use std::io::{BufRead, Write};

use klukai_agent::api::peer::verif_chunk_range;
use klukai_types::actor::ActorId;
use klukai_types::api::SqliteValue;
use klukai_types::base::{CrsqlDbVersion, CrsqlSeq};
use klukai_types::change::{Change, ChunkedChanges};
use serde_json::{Value, json};

use crate::common::mk_change;

pub const UNIT: usize = 200;

/// a change whose estimated_byte_size() is exactly `units * UNIT`
fn sized_change(seq: u64, units: usize) -> Change {
    let site = ActorId(uuid::Uuid::nil());
    let base = mk_change("tests", 1, "text", SqliteValue::Text("".into()), 1, 1, seq, site, 1);
    let pad = units * UNIT - base.estimated_byte_size();
    let c = mk_change("tests", 1, "text", SqliteValue::Text("x".repeat(pad).into()), 1, 1, seq, site, 1);
    assert_eq!(c.estimated_byte_size(), units * UNIT);
    c
}

pub fn run_chunker(input: &str) -> eyre::Result<()> {
    let f = std::fs::File::open(input)?;
    let out = std::io::stdout();
    let mut out = out.lock();
    for line in std::io::BufReader::new(f).lines() {
        let line = line?;
        if line.trim().is_empty() {
            continue;
        }
        let case: Value = serde_json::from_str(&line)?;
        let changes: Vec<rusqlite::Result<Change>> = case["input"]
            .as_array()
            .unwrap()
            .iter()
            .map(|c| Ok(sized_change(c["seq"].as_u64().unwrap(), c["size"].as_u64().unwrap() as usize)))
            .collect();
        let lims: Vec<usize> = case["lims"].as_array().unwrap().iter().map(|l| l.as_u64().unwrap() as usize * UNIT).collect();
        let start = case["start"].as_u64().unwrap();
        let last = case["last"].as_u64().unwrap();
        let res = std::panic::catch_unwind(std::panic::AssertUnwindSafe(|| {
            let mut it = ChunkedChanges::new(changes.into_iter(), CrsqlSeq(start), CrsqlSeq(last), lims[0]);
            let mut got = vec![];
            let mut calls = 0usize;
            loop {
                if calls < lims.len() {
                    it.set_max_buf_size(lims[calls]);
                }
                calls += 1;
                match it.next() {
                    None => break,
                    Some(Ok((chs, r))) => got.push(json!({"chs": chs.iter().map(|c| c.seq.0).collect::<Vec<_>>(), "lo": r.start().0, "hi": r.end().0})),
                    Some(Err(e)) => {
                        got.push(json!({"error": e.to_string()}));
                        break;
                    }
                }
                if calls > 64 {
                    got.push(json!({"error": "iterator does not terminate"}));
                    break;
                }
            }
            (got, calls)
        }));
        match res {
            Ok((got, calls)) => writeln!(out, "{}", json!({"id": case["id"], "out": got, "calls": calls}))?,
            Err(_) => writeln!(out, "{}", json!({"id": case["id"], "panic": true}))?,
        }
    }
    out.flush()?;
    Ok(())
}

pub fn run_chunkrange(input: &str) -> eyre::Result<()> {
    let f = std::fs::File::open(input)?;
    let out = std::io::stdout();
    let mut out = out.lock();
    for line in std::io::BufReader::new(f).lines() {
        let line = line?;
        if line.trim().is_empty() {
            continue;
        }
        let case: Value = serde_json::from_str(&line)?;
        let (lo, hi, k) = (case["lo"].as_u64().unwrap(), case["hi"].as_u64().unwrap(), case["k"].as_u64().unwrap() as usize);
        let res = std::panic::catch_unwind(|| verif_chunk_range(CrsqlDbVersion(lo)..=CrsqlDbVersion(hi), k));
        match res {
            Ok(blocks) => writeln!(out, "{}", json!({"id": case["id"], "blocks": blocks.iter().map(|r| json!([r.start().0, r.end().0])).collect::<Vec<_>>()}))?,
            Err(_) => writeln!(out, "{}", json!({"id": case["id"], "panic": true}))?,
        }
    }
    out.flush()?;
    Ok(())
}
