//! replay-bookkeeping: execute operation paths generated from specs/Bookkeeping.tla on the real
//! BookedVersions / process_multiple_changes / process_fully_buffered_changes /
//! clear_buffered_meta_loop / from_conn / generate_sync and compare the projected state after every
//! step with the state the specification predicts.
use std::collections::BTreeSet;
use std::io::{BufRead, Write};
use std::time::{Duration, Instant};

use klukai_agent::agent::process_multiple_changes;
use klukai_agent::agent::util::{clear_buffered_meta_loop, process_fully_buffered_changes};
use klukai_types::actor::ActorId;
use klukai_types::agent::{BookedVersions, Bookie};
use klukai_types::api::SqliteValue;
use klukai_types::base::{CrsqlDbVersion, CrsqlSeq};
use klukai_types::channel::bounded;
use serde_json::{Value, json};

use crate::common::*;

struct Pend {
    apply: BTreeSet<u64>,
    clear: BTreeSet<u64>,
}

fn drain(node: &mut Node, actor: ActorId, pend: &mut Pend) {
    while let Ok((a, v)) = node.opts.rx_apply.try_recv() {
        if a == actor {
            pend.apply.insert(v.0);
        }
    }
    while let Ok((a, vs)) = node.opts.rx_clear_buf.try_recv() {
        if a == actor {
            for v in vs.start().0..=vs.end().0 {
                pend.clear.insert(v);
            }
        }
    }
}

fn set_json(s: &BTreeSet<u64>) -> Value {
    Value::Array(s.iter().map(|v| json!(v)).collect())
}

async fn project(node: &Node, actor: ActorId, pend: &Pend) -> eyre::Result<Value> {
    let booked = { node.bookie.write::<&str, _>("vh", None).await.ensure(actor) };
    let mut st = {
        let r = booked.read::<&str, _>("vh", None).await;
        proj_booked(&r)
    };
    let conn = node.agent.pool().read().await?;
    let rows = proj_rows(&conn, actor)?;
    merge(&mut st, rows);
    let adv = proj_adv(&node.bookie, node.agent.actor_id(), actor).await;
    // what from_conn rebuilds, advertised through the same generate_sync
    let bv = BookedVersions::from_conn(&conn, actor)?;
    let b2 = Bookie::new(Default::default());
    b2.write::<&str, _>("vh", None).await.replace_actor(actor, bv);
    let adv_reload = proj_adv(&b2, node.agent.actor_id(), actor).await;
    merge(
        &mut st,
        json!({"adv": adv, "advReload": adv_reload, "pendApply": set_json(&pend.apply), "pendClear": set_json(&pend.clear)}),
    );
    Ok(st)
}

pub async fn run(input: &str) -> eyre::Result<()> {
    let mut events = install_sink();
    let mut node = make_node(SCHEMA).await?;
    let (tx_clear, rx_clear) = bounded(64, "vh_clear");
    tokio::spawn(clear_buffered_meta_loop(node.agent.clone(), rx_clear));
    let timeout = Duration::from_secs(30);
    let f = std::fs::File::open(input)?;
    let out = std::io::stdout();
    let mut out = out.lock();
    let (mut n_paths, mut n_steps, mut n_mis) = (0u64, 0u64, 0u64);
    let mut pk_ctr: i64 = 0;
    for line in std::io::BufReader::new(f).lines() {
        let line = line?;
        if line.trim().is_empty() {
            continue;
        }
        let path: Value = serde_json::from_str(&line)?;
        let ops = path["ops"].as_array().cloned().unwrap_or_default();
        let states = path["states"].as_array().cloned().unwrap_or_default();
        let actor = ActorId(uuid::Uuid::new_v4());
        let mut pend = Pend { apply: BTreeSet::new(), clear: BTreeSet::new() };
        n_paths += 1;
        pk_ctr += 1;
        let ts = ts_now(&node.agent);
        for (i, op) in ops.iter().enumerate() {
            n_steps += 1;
            let t_op = Instant::now();
            let mut op_err: Option<String> = None;
            match op["op"].as_str().unwrap_or("") {
                "deliver" => {
                    let mut batch = vec![];
                    for c in op["batch"].as_array().unwrap() {
                        if c["k"] == "empty" {
                            batch.push(empty_cs(actor, c["lo"].as_u64().unwrap(), c["hi"].as_u64().unwrap(), ts));
                        } else {
                            let (v, lo, hi, last) = (c["v"].as_u64().unwrap(), c["lo"].as_u64().unwrap(), c["hi"].as_u64().unwrap(), c["last"].as_u64().unwrap());
                            let changes = if c["has"].as_bool().unwrap_or(true) {
                                (lo..=hi)
                                    .map(|s| mk_change("tests", pk_ctr * 1000 + (v as i64) * 20 + s as i64, "text", SqliteValue::Text(format!("v{v}s{s}").into()), 1, v, s, actor, 1))
                                    .collect()
                            } else {
                                vec![]
                            };
                            batch.push(full_cs(actor, v, changes, lo, hi, last, ts));
                        }
                    }
                    if let Err(e) = process_multiple_changes(node.agent.clone(), node.bookie.clone(), with_src(batch), timeout).await {
                        op_err = Some(format!("process_multiple_changes: {e}"));
                    }
                }
                "apply" => {
                    let v = op["v"].as_u64().unwrap();
                    drain(&mut node, actor, &mut pend);
                    pend.apply.remove(&v);
                    if let Err(e) = process_fully_buffered_changes(&node.agent, &node.bookie, actor, CrsqlDbVersion(v), timeout).await {
                        op_err = Some(format!("process_fully_buffered_changes: {e}"));
                    }
                }
                "clear" => {
                    let v = op["v"].as_u64().unwrap();
                    drain(&mut node, actor, &mut pend);
                    pend.clear.remove(&v);
                    while events.try_recv().is_ok() {}
                    tx_clear.send((actor, CrsqlDbVersion(v)..=CrsqlDbVersion(v))).await.map_err(|e| eyre::eyre!("{e}"))?;
                    let deadline = Instant::now() + Duration::from_secs(20);
                    loop {
                        match tokio::time::timeout(Duration::from_millis(200), events.recv()).await {
                            Ok(Some(ev)) => {
                                if ev["ev"] == "clear_meta_round" && ev["actor"] == json!(actor) && ev["buf"].as_u64().unwrap_or(0) < 1000 && ev["seq_rows"].as_u64().unwrap_or(0) < 1000 {
                                    break;
                                }
                            }
                            _ => {
                                if Instant::now() > deadline {
                                    op_err = Some("clear_buffered_meta round did not complete".into());
                                    break;
                                }
                            }
                        }
                    }
                }
                "restart" => {
                    // memory and in-flight triggers die with the process
                    sleep_ms(5).await;
                    drain(&mut node, actor, &mut pend);
                    pend.apply.clear();
                    pend.clear.clear();
                    let conn = node.agent.pool().read().await?;
                    let bv = BookedVersions::from_conn(&conn, actor)?;
                    // run_root: re-trigger the apply of completely buffered versions
                    for (v, p) in bv.partials.iter() {
                        if p.seqs.gaps(&(CrsqlSeq(0)..=p.last_seq)).count() == 0 {
                            pend.apply.insert(v.0);
                        }
                    }
                    node.bookie.write::<&str, _>("vh", None).await.replace_actor(actor, bv);
                }
                other => eyre::bail!("unknown op {other}"),
            }
            // wait until the asynchronously sent triggers the specification predicts have arrived
            let exp = &states[i];
            let deadline = Instant::now() + Duration::from_millis(1500);
            loop {
                drain(&mut node, actor, &mut pend);
                if set_json(&pend.apply) == exp["pendApply"] && set_json(&pend.clear) == exp["pendClear"] {
                    break;
                }
                if Instant::now() > deadline {
                    break;
                }
                tokio::task::yield_now().await;
                sleep_ms(1).await;
            }
            let t_proj = Instant::now();
            let got = project(&node, actor, &pend).await?;
            if std::env::var("VH_PROF").is_ok() {
                eprintln!("op {:?} total-before-proj {:?} proj {:?}", op["op"], t_op.elapsed(), t_proj.elapsed());
            }
            // compare only the keys the expected state carries (counter-examples carry raw variables only)
            let same = match (exp, &got) {
                (Value::Object(e), Value::Object(g)) => e.iter().all(|(k, v)| g.get(k) == Some(v)),
                _ => false,
            };
            if !same || op_err.is_some() {
                n_mis += 1;
                writeln!(out, "{}", json!({"mismatch": {"id": path["id"], "step": i, "op": op, "expected": exp, "got": got, "error": op_err, "ops": ops}}))?;
                break;
            }
        }
        // generate_sync walks every actor of the Bookie: forget this path's actor (its rows stay, keyed by its id)
        node.bookie.write::<&str, _>("vh", None).await.remove(&actor);
    }
    writeln!(out, "{}", json!({"summary": {"paths": n_paths, "steps": n_steps, "mismatches": n_mis}}))?;
    out.flush()?;
    Ok(())
}
