//! updates-walk: a listener on the update feed of table `tests` of a real agent A (HTTP API, real client
//! library) while (a) A commits local transactions and (b) transactions committed on a second real node B
//! are delivered to A through process_multiple_changes in shuffled order and batching.
use std::collections::{BTreeMap, BTreeSet};
use std::io::Write;
use std::time::Duration;

use axum::Extension;
use futures::StreamExt;
use klukai_agent::agent::process_multiple_changes;
use klukai_agent::api::public::{TimeoutParams, api_v1_transactions};
use klukai_client::CorrosionApiClient;
use klukai_types::api::{SqliteParam, Statement, TypedNotifyEvent};
use klukai_types::broadcast::{BroadcastInput, BroadcastV1, ChangeV1};
use rand::rngs::SmallRng;
use rand::{Rng, SeedableRng};
use serde_json::{Value, json};

use crate::common::*;

fn stmt(rng: &mut SmallRng, key: i64, tag: &str) -> Statement {
    match rng.random_range(0..3) {
        0 => Statement::WithParams("INSERT INTO tests (id, text) VALUES (?, ?) ON CONFLICT (id) DO UPDATE SET text = excluded.text".into(), vec![SqliteParam::Integer(key), SqliteParam::Text(tag.into())]),
        1 => Statement::WithParams("DELETE FROM tests WHERE id = ?".into(), vec![SqliteParam::Integer(key)]),
        _ => Statement::WithParams("UPDATE tests SET text = ? WHERE id = ?".into(), vec![SqliteParam::Text(tag.into()), SqliteParam::Integer(key)]),
    }
}

async fn rows(agent: &klukai_types::agent::Agent) -> eyre::Result<BTreeMap<i64, String>> {
    let conn = agent.pool().read().await?;
    let mut st = conn.prepare("SELECT id, text FROM tests")?;
    let mut out = BTreeMap::new();
    let mut r = st.query([])?;
    while let Some(row) = r.next()? {
        out.insert(row.get::<_, i64>(0)?, row.get::<_, String>(1)?);
    }
    Ok(out)
}

pub async fn run(seed: u64, steps: usize, nkeys: i64, out_path: &str) -> eyre::Result<()> {
    let mut rng = SmallRng::seed_from_u64(seed);
    // A: full agent with HTTP API
    let dir = fresh_dir("updA");
    let conf = make_conf(&dir)?;
    let (tripwire, worker, txw) = klukai_types::tripwire::Tripwire::new_simple();
    std::mem::forget(worker);
    std::mem::forget(txw);
    let (agent_a, bookie_a, _t, _h) = klukai_agent::agent::start_with_config(conf, tripwire).await?;
    let client = CorrosionApiClient::new(agent_a.api_addr());
    client.schema(&[Statement::Simple(SCHEMA.into())]).await?;
    // B: a second real node whose broadcast channel the harness owns
    let mut b = make_node(SCHEMA).await?;
    // some rows exist before the listener attaches
    for k in 1..=nkeys {
        if rng.random_range(0..2) == 0 {
            let _ = api_v1_transactions(Extension(agent_a.clone()), axum::extract::Query(TimeoutParams { timeout: None }), axum::Json(vec![Statement::WithParams("INSERT INTO tests (id, text) VALUES (?, 'pre')".into(), vec![SqliteParam::Integer(k)])])).await;
        }
    }
    sleep_ms(200).await;
    let mut stream = client.updates("tests").await?;
    let (ntx, mut nrx) = tokio::sync::mpsc::unbounded_channel();
    let reader = tokio::spawn(async move {
        while let Some(ev) = stream.next().await {
            match ev {
                Ok(TypedNotifyEvent::Notify(kind, pk)) => {
                    let key = pk.first().and_then(|v| v.as_integer().copied()).unwrap_or(-1);
                    let _ = ntx.send(json!({"kind": format!("{kind:?}").to_lowercase(), "key": key}));
                }
                Ok(TypedNotifyEvent::Error(e)) => {
                    let _ = ntx.send(json!({"kind": "error", "msg": e.to_string()}));
                }
                Err(e) => {
                    let _ = ntx.send(json!({"kind": "stream_error", "msg": e.to_string()}));
                    break;
                }
            }
        }
    });
    sleep_ms(300).await;
    let before = rows(&agent_a).await?;
    let mut changed: BTreeSet<i64> = BTreeSet::new();
    let mut pending_b: Vec<ChangeV1> = vec![];
    let mut log = vec![];
    let mut prev = before.clone();
    for step in 0..steps {
        let roll = rng.random_range(0..100);
        if roll < 35 {
            // local transaction on A, 1-2 statements
            let n = rng.random_range(1..=2);
            let stmts: Vec<Statement> = (0..n).map(|i| { let k = rng.random_range(1..=nkeys); stmt(&mut rng, k, &format!("a{step}_{i}")) }).collect();
            let (status, _) = api_v1_transactions(Extension(agent_a.clone()), axum::extract::Query(TimeoutParams { timeout: None }), axum::Json(stmts)).await;
            log.push(json!({"op": "local", "status": status.as_u16()}));
        } else if roll < 70 {
            // transaction on B (its changes reach A later, in any order)
            let n = rng.random_range(1..=2);
            let stmts: Vec<Statement> = (0..n).map(|i| { let k = rng.random_range(1..=nkeys); stmt(&mut rng, k, &format!("b{step}_{i}")) }).collect();
            let _ = api_v1_transactions(Extension(b.agent.clone()), axum::extract::Query(TimeoutParams { timeout: None }), axum::Json(stmts)).await;
            sleep_ms(15).await;
            while let Ok(m) = b.opts.rx_bcast.try_recv() {
                let (BroadcastInput::AddBroadcast(BroadcastV1::Change(cv)) | BroadcastInput::Rebroadcast(BroadcastV1::Change(cv))) = m;
                pending_b.push(cv);
            }
            log.push(json!({"op": "remote_tx", "pending": pending_b.len()}));
        } else if !pending_b.is_empty() {
            // deliver 1-3 of B's changesets to A, any order, possibly again later
            let n = rng.random_range(1..=std::cmp::min(3, pending_b.len()));
            let mut batch = vec![];
            for _ in 0..n {
                let i = rng.random_range(0..pending_b.len());
                batch.push(if rng.random_range(0..4) == 0 { pending_b[i].clone() } else { pending_b.remove(i) });
                if pending_b.is_empty() {
                    break;
                }
            }
            let nb = batch.len();
            let res = process_multiple_changes(agent_a.clone(), bookie_a.clone(), with_src(batch), Duration::from_secs(30)).await;
            log.push(json!({"op": "deliver", "n": nb, "err": res.err().map(|e| e.to_string())}));
        }
        if rng.random_range(0..6) == 0 {
            sleep_ms(rng.random_range(0..700)).await;
        }
        let now = rows(&agent_a).await?;
        for k in 1..=nkeys {
            if now.get(&k) != prev.get(&k) {
                changed.insert(k);
            }
        }
        prev = now;
    }
    // everything of B arrives eventually
    if !pending_b.is_empty() {
        let _ = process_multiple_changes(agent_a.clone(), bookie_a.clone(), with_src(std::mem::take(&mut pending_b)), Duration::from_secs(30)).await;
        let now = rows(&agent_a).await?;
        for k in 1..=nkeys {
            if now.get(&k) != prev.get(&k) {
                changed.insert(k);
            }
        }
    }
    // quiescence: the batching window is 600 ms
    sleep_ms(1800).await;
    let mut notes: Vec<Value> = vec![];
    while let Ok(n) = nrx.try_recv() {
        notes.push(n);
    }
    reader.abort();
    let fin = rows(&agent_a).await?;
    let mut f = std::io::BufWriter::new(std::fs::File::create(out_path)?);
    writeln!(
        f,
        "{}",
        json!({"seed": seed, "keys": nkeys, "notifications": notes, "changed": changed, "final_present": fin.keys().collect::<Vec<_>>(), "before_present": before.keys().collect::<Vec<_>>(), "log": log})
    )?;
    f.flush()?;
    Ok(())
}
