//! replay-syncneeds: the real SyncStateV1::compute_available_needs on every pair of advertised states
//! enumerated by specs/SyncNeeds.tla.
use std::collections::{BTreeMap, BTreeSet};
use std::io::{BufRead, Write};

use klukai_types::actor::ActorId;
use klukai_types::base::{CrsqlDbVersion, CrsqlSeq};
use klukai_types::sync::{SyncNeedV1, SyncStateV1};
use serde_json::{Value, json};

fn runs(v: &Value) -> Vec<(u64, u64)> {
    let mut xs: Vec<u64> = v.as_array().unwrap().iter().map(|x| x.as_u64().unwrap()).collect();
    xs.sort();
    let mut out: Vec<(u64, u64)> = vec![];
    for x in xs {
        match out.last_mut() {
            Some(l) if l.1 + 1 == x => l.1 = x,
            _ => out.push((x, x)),
        }
    }
    out
}

fn mk_state(me: ActorId, actor: ActorId, st: &Value) -> SyncStateV1 {
    let mut s = SyncStateV1 { actor_id: me, ..Default::default() };
    let head = st["head"].as_u64().unwrap();
    if head > 0 {
        s.heads.insert(actor, CrsqlDbVersion(head));
        let need: Vec<_> = runs(&st["need"]).into_iter().map(|(a, b)| CrsqlDbVersion(a)..=CrsqlDbVersion(b)).collect();
        if !need.is_empty() {
            s.need.insert(actor, need);
        }
        for p in st["partial"].as_array().unwrap() {
            let seqs: Vec<_> = runs(&p["missing"]).into_iter().map(|(a, b)| CrsqlSeq(a)..=CrsqlSeq(b)).collect();
            s.partial_need.entry(actor).or_default().insert(CrsqlDbVersion(p["v"].as_u64().unwrap()), seqs);
        }
    }
    s
}

pub fn run(input: &str) -> eyre::Result<()> {
    let f = std::fs::File::open(input)?;
    let out = std::io::stdout();
    let mut out = out.lock();
    let a = ActorId(uuid::Uuid::from_u128(0xA));
    let me = ActorId(uuid::Uuid::from_u128(0x5));
    let them = ActorId(uuid::Uuid::from_u128(0x7));
    for line in std::io::BufReader::new(f).lines() {
        let line = line?;
        if line.trim().is_empty() {
            continue;
        }
        let case: Value = serde_json::from_str(&line)?;
        let is_self = case["isSelf"].as_bool().unwrap();
        let ours = mk_state(if is_self { a } else { me }, a, &case["ours"]);
        let theirs = mk_state(them, a, &case["theirs"]);
        let res = std::panic::catch_unwind(|| ours.compute_available_needs(&theirs));
        match res {
            Err(_) => writeln!(out, "{}", json!({"id": case["id"], "panic": true}))?,
            Ok(needs) => {
                let mut full: BTreeSet<u64> = BTreeSet::new();
                let mut partial: BTreeMap<u64, BTreeSet<u64>> = BTreeMap::new();
                let mut other_actors = 0;
                let mut raw = vec![];
                for (actor, ns) in needs.iter() {
                    if *actor != a {
                        other_actors += 1;
                    }
                    for n in ns {
                        match n {
                            SyncNeedV1::Full { versions } => {
                                raw.push(json!({"full": [versions.start().0, versions.end().0]}));
                                for v in versions.start().0..=versions.end().0 {
                                    full.insert(v);
                                }
                            }
                            SyncNeedV1::Partial { version, seqs } => {
                                raw.push(json!({"partial": version.0, "seqs": seqs.iter().map(|r| json!([r.start().0, r.end().0])).collect::<Vec<_>>()}));
                                let e = partial.entry(version.0).or_default();
                                for r in seqs {
                                    for s in r.start().0..=r.end().0 {
                                        e.insert(s);
                                    }
                                }
                            }
                            SyncNeedV1::Empty { .. } => raw.push(json!({"empty": true})),
                        }
                    }
                }
                writeln!(
                    out,
                    "{}",
                    json!({"id": case["id"], "full": full, "partial": partial.iter().map(|(v, s)| json!({"v": v, "seqs": s})).collect::<Vec<_>>(), "other_actors": other_actors, "raw": raw})
                )?;
            }
        }
    }
    out.flush()?;
    Ok(())
}
