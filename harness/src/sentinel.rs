//! sentinel-probe: delete / re-insert histories (outside the upsert-only Replication model).  An origin inserts,
//! deletes, re-inserts and updates one row; a relay receives the versions in a chosen order (so that cr-sqlite has to
//! create the row's sentinel itself while merging a later column change); a client that holds a prefix of the history
//! asks the relay for the rest through the real sync server; afterwards client, relay and origin must agree.
use std::io::Write;
use std::time::Duration;

use axum::Extension;
use klukai_agent::agent::process_multiple_changes;
use klukai_agent::api::peer::verif_process_sync;
use klukai_agent::api::public::{TimeoutParams, api_v1_transactions};
use klukai_types::api::Statement;
use klukai_types::base::CrsqlDbVersion;
use klukai_types::broadcast::{BroadcastInput, BroadcastV1, ChangeV1};
use klukai_types::sync::{SyncMessage, SyncMessageV1, SyncNeedV1, generate_sync};
use serde_json::{Value, json};

use crate::common::*;

async fn table(agent: &klukai_types::agent::Agent) -> eyre::Result<Vec<Value>> {
    let conn = agent.pool().read().await?;
    let mut st = conn.prepare("SELECT id, text FROM tests ORDER BY id")?;
    let rows: Vec<Value> = st.query_map([], |r| Ok(json!([r.get::<_, i64>(0)?, r.get::<_, String>(1)?])))?.collect::<rusqlite::Result<_>>()?;
    Ok(rows)
}

async fn clock(agent: &klukai_types::agent::Agent) -> eyre::Result<Vec<Value>> {
    let conn = agent.pool().read().await?;
    let mut st = conn.prepare(r#"SELECT hex(pk), cid, quote(val), col_version, db_version, seq, hex(site_id), cl FROM crsql_changes ORDER BY 1, 2"#)?;
    let rows: Vec<Value> = st
        .query_map([], |r| Ok(json!([r.get::<_, String>(0)?, r.get::<_, String>(1)?, r.get::<_, String>(2)?, r.get::<_, i64>(3)?, r.get::<_, i64>(4)?, r.get::<_, i64>(5)?, r.get::<_, String>(6)?, r.get::<_, i64>(7)?])))?
        .collect::<rusqlite::Result<_>>()?;
    Ok(rows)
}

pub async fn run(out_path: &str) -> eyre::Result<()> {
    let history: Vec<&str> = vec![
        "INSERT INTO tests (id, text) VALUES (1, 'a')",
        "DELETE FROM tests WHERE id = 1",
        "INSERT INTO tests (id, text) VALUES (1, 'b')",
        "UPDATE tests SET text = 'c' WHERE id = 1",
    ];
    // relay delivery orders (1-based versions); the client holds versions 1..=client_has and asks the relay for the rest
    let scenarios: Vec<(Vec<usize>, usize)> = vec![
        (vec![1, 2, 3, 4], 3),
        (vec![1, 4, 2, 3], 3),
        (vec![4, 1, 2, 3], 3),
        (vec![1, 4, 3, 2], 3),
        (vec![1, 3, 2, 4], 2),
        (vec![3, 4, 1, 2], 1),
        (vec![4, 3, 2, 1], 0),
    ];
    let mut cases = vec![];
    for (order, client_has) in scenarios {
        let mut a = make_node(SCHEMA).await?;
        let r = make_node(SCHEMA).await?;
        let c = make_node(SCHEMA).await?;
        let mut versions: Vec<Vec<ChangeV1>> = vec![];
        for sql in &history {
            let _ = api_v1_transactions(Extension(a.agent.clone()), axum::extract::Query(TimeoutParams { timeout: None }), axum::Json(vec![Statement::Simple(sql.to_string())])).await;
            let mut got = vec![];
            for _ in 0..100 {
                while let Ok(m) = a.opts.rx_bcast.try_recv() {
                    let (BroadcastInput::AddBroadcast(BroadcastV1::Change(cv)) | BroadcastInput::Rebroadcast(BroadcastV1::Change(cv))) = m;
                    got.push(cv);
                }
                if !got.is_empty() {
                    break;
                }
                sleep_ms(20).await;
            }
            versions.push(got);
        }
        let origin = a.agent.actor_id();
        for v in &order {
            process_multiple_changes(r.agent.clone(), r.bookie.clone(), with_src(versions[v - 1].clone()), Duration::from_secs(30)).await?;
        }
        for v in 1..=client_has {
            process_multiple_changes(c.agent.clone(), c.bookie.clone(), with_src(versions[v - 1].clone()), Duration::from_secs(30)).await?;
        }
        let relay_rows = clock(&r.agent).await?;
        let mut served = vec![];
        if client_has < 4 {
            let need = SyncNeedV1::Full { versions: CrsqlDbVersion(client_has as u64 + 1)..=CrsqlDbVersion(4) };
            let msgs = verif_process_sync(r.agent.pool().clone(), r.bookie.clone(), vec![vec![(origin, vec![need])]]).await?;
            let mut batch = vec![];
            for m in msgs {
                if let SyncMessage::V1(SyncMessageV1::Changeset(cv)) = m {
                    served.push(json!({"versions": format!("{:?}", cv.versions()), "seqs": format!("{:?}", cv.seqs()), "changes": cv.changes().iter().map(|ch| json!([ch.cid.to_string(), format!("{:?}", ch.val), ch.col_version, ch.seq.0, ch.cl])).collect::<Vec<_>>()}));
                    batch.push(cv);
                }
            }
            // delivered oldest version first, as a stream of sync answers would be ingested
            batch.sort_by_key(|cv| cv.versions().start().0);
            for cv in batch {
                process_multiple_changes(c.agent.clone(), c.bookie.clone(), with_src(vec![cv]), Duration::from_secs(30)).await?;
            }
        }
        let st_c = generate_sync(&c.bookie, c.agent.actor_id()).await;
        let st_r = generate_sync(&r.bookie, r.agent.actor_id()).await;
        let left = st_c.compute_available_needs(&st_r);
        cases.push(json!({"relay_order": order, "client_has": client_has, "origin_table": table(&a.agent).await?, "relay_table": table(&r.agent).await?, "client_table": table(&c.agent).await?,
                          "relay_clock_rows": relay_rows, "served": served, "client_needs_left": left.values().map(|v| v.len()).sum::<usize>(), "client_clock_rows": clock(&c.agent).await?}));
    }
    let mut f = std::io::BufWriter::new(std::fs::File::create(out_path)?);
    writeln!(f, "{}", json!({"cases": cases}))?;
    f.flush()?;
    Ok(())
}
