//! replay-members: walks generated from specs/Members.tla executed on the real `Members`.
use std::io::{BufRead, Write};
use std::net::SocketAddr;
use std::time::Duration;

use klukai_types::actor::{Actor, ActorId, ClusterId};
use klukai_types::broadcast::Timestamp;
use klukai_types::members::Members;
use serde_json::{Value, json};

fn addr(a: u64) -> SocketAddr {
    format!("127.0.0.{}:8000", a).parse().unwrap()
}
fn addr_no(a: &SocketAddr) -> u64 {
    match a.ip() {
        std::net::IpAddr::V4(v4) => v4.octets()[3] as u64,
        _ => 0,
    }
}
fn pid(p: u64) -> ActorId {
    ActorId(uuid::Uuid::from_u128(p as u128))
}
fn ts(t: u64) -> Timestamp {
    Timestamp::from(uhlc::NTP64::from(Duration::from_secs(t * 1000)))
}

fn project(m: &Members, clusters: &[u64]) -> Value {
    let mut states: Vec<Value> = m
        .states
        .iter()
        .map(|(id, s)| json!({"p": id.0.as_u128() as u64, "addr": addr_no(&s.addr), "ts": s.ts.to_duration().as_secs() / 1000, "cluster": s.cluster_id.0, "ring": s.ring.map(|r| r as u64).unwrap_or(9)}))
        .collect();
    states.sort_by_key(|v| v["p"].as_u64());
    let mut by: Vec<Value> = m.by_addr.iter().map(|(a, id)| json!({"a": addr_no(a), "p": id.0.as_u128() as u64})).collect();
    by.sort_by_key(|v| v["a"].as_u64());
    let mut rtts: Vec<Value> = m.rtts.iter().map(|(a, r)| json!({"a": addr_no(a), "s": r.buf.iter().copied().collect::<Vec<u64>>()})).collect();
    rtts.retain(|v| !v["s"].as_array().unwrap().is_empty());
    rtts.sort_by_key(|v| v["a"].as_u64());
    let ring0: Vec<Value> = clusters
        .iter()
        .map(|c| {
            let mut a: Vec<u64> = m.ring0(ClusterId(*c as u16)).map(|a| addr_no(&a)).collect();
            a.sort();
            json!({"c": c, "addrs": a})
        })
        .collect();
    json!({"states": states, "byAddr": by, "rtts": rtts, "ring0": ring0})
}

pub fn run(input: &str) -> eyre::Result<()> {
    let f = std::fs::File::open(input)?;
    let out = std::io::stdout();
    let mut out = out.lock();
    let (mut n_paths, mut n_steps, mut n_mis) = (0u64, 0u64, 0u64);
    for line in std::io::BufReader::new(f).lines() {
        let line = line?;
        if line.trim().is_empty() {
            continue;
        }
        let path: Value = serde_json::from_str(&line)?;
        let clusters: Vec<u64> = path["clusters"].as_array().unwrap().iter().map(|c| c.as_u64().unwrap()).collect();
        let ops = path["ops"].as_array().unwrap();
        let states = path["states"].as_array().unwrap();
        let mut m = Members::default();
        n_paths += 1;
        for (i, op) in ops.iter().enumerate() {
            n_steps += 1;
            let r = std::panic::catch_unwind(std::panic::AssertUnwindSafe(|| match op["op"].as_str().unwrap() {
                "up" | "down" => {
                    let actor = Actor::new(pid(op["p"].as_u64().unwrap()), addr(op["addr"].as_u64().unwrap()), ts(op["t"].as_u64().unwrap()), ClusterId(op["cluster"].as_u64().unwrap() as u16));
                    if op["op"] == "up" {
                        m.add_member(&actor);
                    } else {
                        m.remove_member(&actor);
                    }
                }
                "rtt" => m.add_rtt(addr(op["a"].as_u64().unwrap()), Duration::from_millis(op["ms"].as_u64().unwrap())),
                _ => {}
            }));
            let got = project(&m, &clusters);
            if r.is_err() || got != states[i] {
                n_mis += 1;
                writeln!(out, "{}", json!({"mismatch": {"id": path["id"], "step": i, "op": op, "expected": states[i], "got": got, "panic": r.is_err(), "ops": &ops[..=i]}}))?;
                break;
            }
        }
    }
    writeln!(out, "{}", json!({"summary": {"paths": n_paths, "steps": n_steps, "mismatches": n_mis}}))?;
    Ok(())
}
