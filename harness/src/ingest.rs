//! ingest-walk: the real ingest loop (handle_changes) of a real agent, stressed with a seeded arrival
//! sequence while the harness holds the write connection (so batches stall and the queue overflows).
//! The loop's feature-gated events are written as NDJSON for specs/TraceIngest.tla.
use std::io::Write;
use std::time::Duration;

use klukai_agent::agent::{setup, verif_handle_changes};
use klukai_types::actor::ActorId;
use klukai_types::agent::Bookie;
use klukai_types::api::SqliteValue;
use klukai_types::base::{CrsqlDbVersion, CrsqlSeq};
use klukai_types::broadcast::{ChangeSource, ChangeV1};
use klukai_types::tripwire::Tripwire;
use rand::rngs::SmallRng;
use rand::{Rng, SeedableRng};
use serde_json::{Value, json};

use crate::common::*;

fn mk(actor: ActorId, ai: usize, lo: u64, hi: u64, empty: bool, v: u64, last: u64, ts: klukai_types::broadcast::Timestamp) -> ChangeV1 {
    if empty {
        return empty_cs(actor, v, v, ts);
    }
    let changes = (lo..=hi).map(|s| mk_change("tests", (ai as i64) * 1000 + (v as i64) * 100 + s as i64 + 1, "text", SqliteValue::Text(format!("a{ai}v{v}s{s}").into()), 1, v, s, actor, 1)).collect();
    full_cs(actor, v, changes, lo, hi, last, ts)
}

pub async fn run_walk(seed: u64, qlen: usize, chunk: usize, nvers: u64, steps: usize, out_path: &str) -> eyre::Result<()> {
    let mut events = install_sink();
    let dir = fresh_dir("ingest");
    let mut conf = make_conf(&dir)?;
    conf.perf.processing_queue_len = qlen;
    conf.perf.apply_queue_len = chunk;
    conf.perf.apply_queue_timeout = 150;
    let (tripwire, worker, txw) = Tripwire::new_simple();
    std::mem::forget(worker);
    std::mem::forget(txw);
    let (agent, opts) = setup(conf, tripwire.clone()).await?;
    let bookie = Bookie::new_with_registry(Default::default(), opts.lock_registry.clone());
    bookie.write::<&str, _>("init", None).await.insert(agent.actor_id(), agent.booked().clone());
    {
        let _ = agent.booked().read::<&str, _>("vh-init", None).await;
    }
    let (status, _) = klukai_agent::api::public::api_v1_db_schema(axum::Extension(agent.clone()), axum::Json(vec![SCHEMA.to_string()])).await;
    if status != http::StatusCode::OK {
        eyre::bail!("schema failed");
    }
    let klukai_agent::agent::AgentOptions { rx_changes, rx_apply, rx_clear_buf, rx_bcast, .. } = opts;
    // keep the other receivers alive so senders do not fail
    let _keep = (rx_apply, rx_clear_buf, rx_bcast);
    tokio::spawn(verif_handle_changes(agent.clone(), bookie.clone(), rx_changes, tripwire.clone()));
    let mut rng = SmallRng::seed_from_u64(seed);
    let actors = [ActorId(uuid::Uuid::new_v4()), ActorId(uuid::Uuid::new_v4())];
    let ts = ts_now(&agent);
    let nseqs: u64 = std::env::var("VH_NSEQS").ok().and_then(|s| s.parse().ok()).unwrap_or(2);
    let last = nseqs - 1;
    let mut offered: Vec<(usize, u64, u64, bool, u64)> = vec![];
    let mut script: Vec<Value> = vec![];
    // phase 1: overload - the harness holds the write connection
    let mut conn = Some(agent.pool().write_normal().await?);
    for step in 0..steps {
        if step == steps * 2 / 3 {
            // overload ends
            conn.take();
            script.push(json!({"harness": "release"}));
            sleep_ms(30).await;
        }
        let ai = rng.random_range(0..2usize);
        let v = rng.random_range(1..=nvers);
        let empty = rng.random_range(0..8) == 0;
        let lo = rng.random_range(0..nseqs);
        let hi = std::cmp::min(last, lo + rng.random_range(0..2));
        let (lo, hi) = if !empty && rng.random_range(0..12) == 0 { (0, last) } else { (lo, hi) };
        offered.push((ai, lo, hi, empty, v));
        agent.tx_changes().send((mk(actors[ai], ai, lo, hi, empty, v, last, ts), ChangeSource::Sync)).await.map_err(|e| eyre::eyre!("{e}"))?;
        script.push(json!({"offer": [ai + 1, lo, hi, empty, v]}));
        sleep_ms(rng.random_range(0..6)).await;
        if rng.random_range(0..10) == 0 {
            sleep_ms(170).await; // let a tick fire
        }
    }
    conn.take();
    sleep_ms(400).await;
    // phase 2: everything is offered again (as sync does every round), twice
    for round in 0..3 {
        for (ai, lo, hi, empty, v) in offered.clone() {
            agent.tx_changes().send((mk(actors[ai], ai, lo, hi, empty, v, last, ts), ChangeSource::Sync)).await.map_err(|e| eyre::eyre!("{e}"))?;
            sleep_ms(1).await;
        }
        sleep_ms(400).await;
        script.push(json!({"harness": format!("reoffer round {round}")}));
    }
    // liveness conclusion observed on the real node: every offered changeset is held now
    let mut not_held = vec![];
    for (ai, lo, hi, empty, v) in offered.iter() {
        let booked = { bookie.read::<&str, _>("vh", None).await.get(&actors[*ai]).cloned() };
        let cs = mk(actors[*ai], *ai, *lo, *hi, *empty, *v, last, ts);
        let held = match booked {
            Some(b) => b.read::<&str, _>("vh", None).await.contains_all(CrsqlDbVersion(*v)..=CrsqlDbVersion(*v), cs.changeset.seqs()),
            None => false,
        };
        if !held {
            not_held.push(json!([ai + 1, if *empty { 3 } else { 0 }, v, lo, hi]));
        }
    }
    let mut f = std::io::BufWriter::new(std::fs::File::create(out_path)?);
    writeln!(f, "{}", json!({"ev": "init", "qlen": qlen, "chunk": chunk, "nvers": nvers, "seed": seed}))?;
    let me = json!(agent.actor_id());
    let idx = |a: &Value| -> i64 {
        if *a == json!(actors[0]) {
            1
        } else if *a == json!(actors[1]) {
            2
        } else {
            0
        }
    };
    let abs_change = |c: &Value| -> Value {
        let empty = c["slo"].as_i64() == Some(-1);
        json!({"k": if empty { "empty" } else { "full" }, "a": idx(&c["actor"]), "v": c["vlo"], "lo": if empty { json!(0) } else { c["slo"].clone() }, "hi": if empty { json!(0) } else { c["shi"].clone() }})
    };
    while let Ok(ev) = events.try_recv() {
        if ev["node"] != me {
            continue;
        }
        let name = ev["ev"].as_str().unwrap_or("");
        let out = match name {
            "ingest_recv" => json!({"ev": "recv", "c": abs_change(&ev["change"]), "decision": ev["decision"], "dropped": if ev["dropped"].is_null() || ev.get("dropped").is_none() { json!({"k": "none", "a": 0, "v": 0, "lo": 0, "hi": 0}) } else { abs_change(&ev["dropped"]) },
                "still_seen": ev["dropped"]["still_seen"].as_array().cloned().unwrap_or_default(), "key_left": ev["dropped"]["key_left"].as_bool().unwrap_or(false), "queue_len": ev["queue_len"].as_u64().unwrap_or(0)}),
            "ingest_spawn" => json!({"ev": "spawn", "site": ev["site"], "batch": ev["changes"].as_array().unwrap().iter().map(&abs_change).collect::<Vec<_>>(), "inflight": ev["inflight"]}),
            "ingest_done" => json!({"ev": "done", "ok": ev["ok"], "inflight": ev["inflight"], "forgotten": ev["forgotten"].as_array().map(|a| a.iter().map(&abs_change).collect::<Vec<_>>()).unwrap_or_default()}),
            "ingest_trim" => json!({"ev": "trim", "kept": ev["kept"]}),
            "pmc_commit" => json!({"ev": "commit", "a": idx(&ev["actor"]), "processed": ev["processed"].as_array().unwrap().iter().map(|p| json!({"vlo": p["vlo"], "vhi": p["vhi"], "partial": !p["partial"].is_null(), "seqs": p["partial"].as_array().cloned().unwrap_or_default()})).collect::<Vec<_>>()}),
            _ => continue,
        };
        writeln!(f, "{}", out)?;
    }
    writeln!(f, "{}", json!({"ev": "final", "not_held": not_held, "offered": offered.len()}))?;
    f.flush()?;
    let _ = (CrsqlSeq(0), script);
    Ok(())
}

/// ingest-poison: a changeset whose first apply FAILS (its table is not in the node's schema yet) stays in the
/// duplicate-suppression cache.  Variant "quiet": nothing else arrives; variant "overflow": enough other versions arrive
/// for the cache to be trimmed.  Then the table is added and the changeset is offered again five times.
pub async fn run_poison(variant: &str, out_path: &str) -> eyre::Result<()> {
    let mut events = install_sink();
    let dir = fresh_dir("poison");
    let mut conf = make_conf(&dir)?;
    conf.perf.processing_queue_len = 12; // cache trimmed above 12 entries, 10 kept
    conf.perf.apply_queue_len = 1;
    conf.perf.apply_queue_timeout = 100;
    let (tripwire, worker, txw) = Tripwire::new_simple();
    std::mem::forget(worker);
    std::mem::forget(txw);
    let (agent, opts) = setup(conf, tripwire.clone()).await?;
    let bookie = Bookie::new_with_registry(Default::default(), opts.lock_registry.clone());
    bookie.write::<&str, _>("init", None).await.insert(agent.actor_id(), agent.booked().clone());
    let (status, _) = klukai_agent::api::public::api_v1_db_schema(axum::Extension(agent.clone()), axum::Json(vec![SCHEMA.to_string()])).await;
    if status != http::StatusCode::OK {
        eyre::bail!("schema failed");
    }
    let klukai_agent::agent::AgentOptions { rx_changes, rx_apply, rx_clear_buf, rx_bcast, .. } = opts;
    let _keep = (rx_apply, rx_clear_buf, rx_bcast);
    tokio::spawn(verif_handle_changes(agent.clone(), bookie.clone(), rx_changes, tripwire.clone()));
    let a = ActorId(uuid::Uuid::new_v4());
    let ts = ts_now(&agent);
    let poison = || full_cs(a, 1, vec![mk_change("later", 1, "text", SqliteValue::Text("p".into()), 1, 1, 0, a, 1)], 0, 0, 0, ts);
    agent.tx_changes().send((poison(), ChangeSource::Sync)).await.map_err(|e| eyre::eyre!("{e}"))?;
    sleep_ms(400).await;
    let mut early: Vec<Value> = vec![];
    if variant == "overflow" {
        for v in 2..=18u64 {
            let cs = full_cs(a, v, vec![mk_change("tests", v as i64, "text", SqliteValue::Text(format!("v{v}").into()), 1, v, 0, a, 1)], 0, 0, 0, ts);
            agent.tx_changes().send((cs, ChangeSource::Sync)).await.map_err(|e| eyre::eyre!("{e}"))?;
            sleep_ms(5).await;
        }
        // wait (state-based, the machine may be busy) until a tick has trimmed the cache
        let mut pending = vec![];
        let mut trimmed = false;
        for _ in 0..400 {
            while let Ok(ev) = events.try_recv() {
                if ev["ev"] == json!("ingest_trim") {
                    trimmed = true;
                }
                pending.push(ev);
            }
            if trimmed {
                break;
            }
            sleep_ms(50).await;
        }
        early = pending;
    }
    let later = format!("{SCHEMA}\nCREATE TABLE IF NOT EXISTS later (id INTEGER NOT NULL PRIMARY KEY, text TEXT NOT NULL DEFAULT '');");
    let (status, _) = klukai_agent::api::public::api_v1_db_schema(axum::Extension(agent.clone()), axum::Json(vec![later])).await;
    if status != http::StatusCode::OK {
        eyre::bail!("adding the table failed");
    }
    for _ in 0..5 {
        agent.tx_changes().send((poison(), ChangeSource::Sync)).await.map_err(|e| eyre::eyre!("{e}"))?;
        sleep_ms(300).await;
    }
    let held = {
        let booked = { bookie.read::<&str, _>("vh", None).await.get(&a).cloned() };
        match booked {
            Some(b) => b.read::<&str, _>("vh", None).await.contains_all(CrsqlDbVersion(1)..=CrsqlDbVersion(1), poison().changeset.seqs()),
            None => false,
        }
    };
    let mut decisions = vec![];
    let mut trims = 0;
    let mut failed = 0;
    while let Ok(ev) = events.try_recv() {
        early.push(ev);
    }
    for ev in early {
        match ev["ev"].as_str().unwrap_or("") {
            "ingest_recv" if ev["change"]["vlo"] == json!(1) => decisions.push(ev["decision"].clone()),
            "ingest_trim" => trims += 1,
            "ingest_done" if ev["ok"] == json!(false) => failed += 1,
            _ => {}
        }
    }
    let mut f = std::io::BufWriter::new(std::fs::File::create(out_path)?);
    writeln!(f, "{}", json!({"variant": variant, "held_after_reoffers": held, "decisions_for_the_changeset": decisions, "trims": trims, "failed_batches": failed}))?;
    f.flush()?;
    Ok(())
}
