//! sync-client-probe: one round of the real parallel_sync of a client against two real servers over QUIC.
//! A foreign actor's versions (one of them multi-sequence, delivered as chunks) and a second actor's are spread over the
//! three nodes at random; the harness records what the client can get from each server (the real
//! compute_available_needs on the real advertised states, whole versions cut by the real chunk_range as parallel_sync
//! does) and every request the servers read (hook `sync_request`).
use std::collections::BTreeMap;
use std::io::Write;
use std::time::Duration;

use klukai_agent::agent::process_multiple_changes;
use klukai_agent::api::peer::{parallel_sync, verif_chunk_range};
use klukai_types::actor::ActorId;
use klukai_types::api::SqliteValue;
use klukai_types::sync::{SyncNeedV1, generate_sync};
use rand::rngs::SmallRng;
use rand::{Rng, SeedableRng};
use serde_json::{Value, json};

use crate::common::*;

fn need_json(n: &SyncNeedV1) -> Value {
    match n {
        SyncNeedV1::Full { versions } => json!({"k": "full", "lo": versions.start().0, "hi": versions.end().0}),
        SyncNeedV1::Partial { version, seqs } => json!({"k": "partial", "v": version.0, "seqs": seqs.iter().map(|r| (r.start().0, r.end().0)).collect::<Vec<_>>()}),
        SyncNeedV1::Empty { .. } => json!({"k": "empty"}),
    }
}

pub async fn run(seed: u64, nv: u64, out_path: &str) -> eyre::Result<()> {
    let mut rng = SmallRng::seed_from_u64(seed);
    let mut sink = install_sink();
    let (tw, w, t) = klukai_types::tripwire::Tripwire::new_simple();
    std::mem::forget(w);
    std::mem::forget(t);
    let mut nodes = vec![];
    for tag in ["scA", "scB", "scC"] {
        let dir = fresh_dir(tag);
        let (agent, bookie, transport, _h) = klukai_agent::agent::start_with_config(make_conf(&dir)?, tw.clone()).await?;
        let (st, _) = klukai_agent::api::public::api_v1_db_schema(axum::Extension(agent.clone()), axum::Json(vec![SCHEMA.to_string()])).await;
        if st != http::StatusCode::OK {
            eyre::bail!("schema");
        }
        nodes.push((agent, bookie, transport));
    }
    let f = ActorId(uuid::Uuid::new_v4());
    let g = ActorId(uuid::Uuid::new_v4());
    let label = |a: &ActorId| if *a == f { "F".to_string() } else if *a == g { "G".to_string() } else { a.to_string() };
    let ts = ts_now(&nodes[0].0);
    let pv = nv + 1; // the multi-sequence version: seqs 0..=3
    let probs = [85u32, 60, 25];
    let mut held = vec![];
    for (i, (agent, bookie, _)) in nodes.iter().enumerate() {
        let mut batch = vec![];
        let mut mine = vec![];
        for v in 1..=nv {
            if rng.random_range(0..100) < probs[i] {
                batch.push(full_cs(f, v, vec![mk_change("tests", v as i64, "text", SqliteValue::Text(format!("f{v}").into()), 1, v, 0, f, 1)], 0, 0, 0, ts));
                mine.push(json!(["F", v]));
            }
        }
        for s in 0..4u64 {
            if rng.random_range(0..100) < probs[i] {
                batch.push(full_cs(f, pv, vec![mk_change("tests", 1000 + s as i64, "text", SqliteValue::Text(format!("p{s}").into()), 1, pv, s, f, 1)], s, s, 3, ts));
                mine.push(json!(["F", pv, s]));
            }
        }
        if i == 1 {
            for v in 1..=3u64 {
                batch.push(full_cs(g, v, vec![mk_change("tests", 2000 + v as i64, "text", SqliteValue::Text(format!("g{v}").into()), 1, v, 0, g, 1)], 0, 0, 0, ts));
                mine.push(json!(["G", v]));
            }
        }
        for cs in batch {
            process_multiple_changes(agent.clone(), bookie.clone(), with_src(vec![cs]), Duration::from_secs(30)).await?;
        }
        held.push(mine);
    }
    sleep_ms(300).await;
    // fully buffered versions are applied by the agents' own loops; wait for that to settle
    sleep_ms(700).await;
    let (client, cbookie, ctransport) = (&nodes[2].0, &nodes[2].1, &nodes[2].2);
    let ours = generate_sync(cbookie, client.actor_id()).await;
    let mut avail = BTreeMap::new();
    for (name, i) in [("A", 0usize), ("B", 1)] {
        let theirs = generate_sync(&nodes[i].1, nodes[i].0.actor_id()).await;
        let needs = ours.compute_available_needs(&theirs);
        let mut q = vec![];
        for (actor, ns) in needs {
            for n in ns {
                match n {
                    SyncNeedV1::Full { versions } => {
                        for r in verif_chunk_range(versions, 10) {
                            q.push(json!({"actor": label(&actor), "need": need_json(&SyncNeedV1::Full { versions: r })}));
                        }
                    }
                    other => q.push(json!({"actor": label(&actor), "need": need_json(&other)})),
                }
            }
        }
        avail.insert(name.to_string(), q);
    }
    while sink.try_recv().is_ok() {}
    let members = vec![(nodes[0].0.actor_id(), nodes[0].0.gossip_addr()), (nodes[1].0.actor_id(), nodes[1].0.gossip_addr())];
    let res = tokio::time::timeout(Duration::from_secs(60), parallel_sync(client, ctransport, members, ours)).await;
    let outcome = match &res {
        Err(_) => "timeout".to_string(),
        Ok(Ok(n)) => format!("ok:{n}"),
        Ok(Err(e)) => format!("err:{e}"),
    };
    sleep_ms(1500).await;
    let mut requests: BTreeMap<String, Vec<Value>> = BTreeMap::new();
    requests.insert("A".into(), vec![]);
    requests.insert("B".into(), vec![]);
    let ida = nodes[0].0.actor_id().to_string().replace('-', "");
    let idb = nodes[1].0.actor_id().to_string().replace('-', "");
    while let Ok(ev) = sink.try_recv() {
        if ev.get("ev").and_then(|e| e.as_str()) != Some("sync_request") {
            continue;
        }
        let srv = ev["server"].as_str().unwrap_or("").replace('-', "");
        let name = if srv == ida { "A" } else if srv == idb { "B" } else {
            eprintln!("sync_request from unknown server {srv} (A {ida}, B {idb})");
            continue;
        };
        for part in ev["req"].as_array().cloned().unwrap_or_default() {
            let actor = part["actor"].as_str().unwrap_or("").to_string();
            let an = actor.replace('-', "");
            let al = if an == f.to_string().replace('-', "") { "F".to_string() } else if an == g.to_string().replace('-', "") { "G".to_string() } else { actor };
            for n in part["needs"].as_array().cloned().unwrap_or_default() {
                requests.get_mut(name).unwrap().push(json!({"actor": al, "need": n}));
            }
        }
    }
    // what the client still lacks of what the servers could give, once the answers were ingested
    let mut left = BTreeMap::new();
    for _ in 0..40 {
        let ours2 = generate_sync(cbookie, client.actor_id()).await;
        left.clear();
        for (name, i) in [("A", 0usize), ("B", 1)] {
            let theirs = generate_sync(&nodes[i].1, nodes[i].0.actor_id()).await;
            let n: Vec<Value> = ours2.compute_available_needs(&theirs).into_iter().flat_map(|(a, ns)| ns.into_iter().map(move |n| json!({"actor": label(&a), "need": need_json(&n)})).collect::<Vec<_>>()).collect();
            left.insert(name.to_string(), n);
        }
        if left.values().all(|v| v.is_empty()) {
            break;
        }
        sleep_ms(250).await;
    }
    let mut fo = std::io::BufWriter::new(std::fs::File::create(out_path)?);
    writeln!(fo, "{}", json!({"seed": seed, "nv": nv, "held": {"A": held[0], "B": held[1], "C": held[2]}, "available": avail, "outcome": outcome, "requests": requests, "still_available_after": left}))?;
    fo.flush()?;
    Ok(())
}
