//! schema-replay: walks over the state graph of specs/Schema.tla executed through the real api_v1_db_schema on
//! real agents; after every submission the database schema, the rows, __corro_schema and the in-memory schema are
//! projected; at the end of a walk the node is restarted on the same files.
use std::collections::BTreeMap;
use std::io::{BufRead, Write};

use axum::Extension;
use klukai_agent::api::public::{TimeoutParams, api_v1_db_schema, api_v1_transactions};
use klukai_types::api::Statement;
use serde_json::{Value, json};

use crate::common::*;

fn norm_default(d: Option<String>) -> String {
    d.unwrap_or_else(|| "none".into())
}

async fn project(agent: &klukai_types::agent::Agent) -> eyre::Result<Value> {
    let conn = agent.pool().read().await?;
    let mut tables: BTreeMap<String, Value> = BTreeMap::new();
    let names: Vec<String> = {
        let mut st = conn.prepare("SELECT name FROM sqlite_schema WHERE type = 'table' AND name NOT LIKE '\\_\\_corro%' ESCAPE '\\' AND name NOT LIKE '%crsql%' AND name NOT LIKE 'sqlite%' ORDER BY name")?;
        st.query_map([], |r| r.get(0))?.collect::<rusqlite::Result<_>>()?
    };
    for n in names {
        let mut cols = vec![];
        let mut pk = vec![];
        {
            let mut st = conn.prepare(&format!("PRAGMA table_info({n})"))?;
            let mut rows = st.query([])?;
            while let Some(r) = rows.next()? {
                let name: String = r.get(1)?;
                let ty: String = r.get(2)?;
                let nn: bool = r.get(3)?;
                let d: Option<String> = r.get(4)?;
                let pkpos: i64 = r.get(5)?;
                if pkpos > 0 {
                    pk.push((pkpos, name.clone()));
                }
                cols.push(json!({"c": name, "ty": ty.to_uppercase(), "nn": nn, "dflt": norm_default(d)}));
            }
        }
        pk.sort();
        let mut idx = vec![];
        {
            let mut st = conn.prepare(&format!("PRAGMA index_list({n})"))?;
            let mut rows = st.query([])?;
            while let Some(r) = rows.next()? {
                let iname: String = r.get(1)?;
                let uniq: bool = r.get(2)?;
                let origin: String = r.get(3)?;
                if origin == "c" {
                    idx.push(json!({"n": iname, "uniq": uniq}));
                }
            }
        }
        let nrows: i64 = conn.query_row(&format!("SELECT COUNT(*) FROM {n}"), [], |r| r.get(0))?;
        cols.sort_by_key(|c| c["c"].as_str().unwrap_or("").to_string());
        tables.insert(n.clone(), json!({"name": n, "pk": pk.into_iter().map(|p| p.1).collect::<Vec<_>>(), "cols": cols, "idx": idx, "rows": nrows}));
    }
    let corro_schema: Vec<String> = {
        let mut st = conn.prepare("SELECT name FROM __corro_schema WHERE type = 'table' ORDER BY name")?;
        st.query_map([], |r| r.get(0))?.collect::<rusqlite::Result<_>>()?
    };
    let mem: BTreeMap<String, Vec<String>> = {
        let s = agent.schema().read();
        s.tables.iter().map(|(n, t)| (n.clone(), { let mut c: Vec<String> = t.columns.keys().cloned().collect(); c.sort(); c })).collect()
    };
    // indexes: as the node's in-memory schema and as the persisted record (__corro_schema) list them
    let mem_idx: BTreeMap<String, Vec<String>> = {
        let s = agent.schema().read();
        s.tables.iter().map(|(n, t)| (n.clone(), { let mut c: Vec<String> = t.indexes.keys().cloned().collect(); c.sort(); c })).collect()
    };
    let corro_idx: BTreeMap<String, Vec<String>> = {
        let mut st = conn.prepare("SELECT tbl_name, name FROM __corro_schema WHERE type = 'index' ORDER BY tbl_name, name")?;
        let rows: Vec<(String, String)> = st.query_map([], |r| Ok((r.get(0)?, r.get(1)?)))?.collect::<rusqlite::Result<_>>()?;
        let mut m: BTreeMap<String, Vec<String>> = BTreeMap::new();
        for (t, n) in rows {
            m.entry(t).or_default().push(n);
        }
        m
    };
    Ok(json!({"tables": tables.values().collect::<Vec<_>>(), "corro_schema": corro_schema, "mem": mem, "mem_idx": mem_idx, "corro_idx": corro_idx}))
}

pub async fn run(input: &str) -> eyre::Result<()> {
    let f = std::fs::File::open(input)?;
    let out = std::io::stdout();
    let mut out = out.lock();
    for line in std::io::BufReader::new(f).lines() {
        let line = line?;
        if line.trim().is_empty() {
            continue;
        }
        let walk: Value = serde_json::from_str(&line)?;
        let dir = fresh_dir("schema");
        let node = make_node_in(dir.clone(), "").await?;
        let mut steps = vec![];
        for st in walk["steps"].as_array().unwrap() {
            let stmts: Vec<String> = st["sql"].as_array().unwrap().iter().map(|s| s.as_str().unwrap().to_string()).collect();
            let (status, body) = api_v1_db_schema(Extension(node.agent.clone()), axum::Json(stmts)).await;
            // every table that exists holds (at least) one row, so that "keeps every existing row" is observable
            let p0 = project(&node.agent).await?;
            for t in p0["tables"].as_array().unwrap() {
                if t["rows"].as_i64() == Some(0) {
                    let name = t["name"].as_str().unwrap();
                    let _ = api_v1_transactions(Extension(node.agent.clone()), axum::extract::Query(TimeoutParams { timeout: None }), axum::Json(vec![Statement::Simple(format!("INSERT INTO {name} (id) VALUES (1)"))])).await;
                }
            }
            let p = project(&node.agent).await?;
            steps.push(json!({"i": st["i"], "status": status.as_u16(), "error": serde_json::to_value(&body.0).ok(), "state": p}));
        }
        // restart on the same files: setup() + init_schema
        let node2 = make_node_in(dir, "").await?;
        let after = project(&node2.agent).await?;
        writeln!(out, "{}", json!({"id": walk["id"], "steps": steps, "after_restart": after}))?;
    }
    out.flush()?;
    Ok(())
}
