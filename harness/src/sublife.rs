//! sub-life: subscription life cycle on a real agent: graceful shutdown in the order of command/agent.rs
//! (trip, await handles, drop_handles, wait for counted tasks) followed by a restart on the same directory,
//! or an abrupt stop (the data directory is copied while the agent runs) followed by a start on the copy.
use std::io::Write;
use std::time::Duration;

use futures::StreamExt;
use klukai_client::CorrosionApiClient;
use klukai_types::api::{Statement, TypedQueryEvent};
use klukai_types::pubsub::Matcher;
use klukai_types::spawn::wait_for_all_pending_handles;
use serde_json::{Value, json};

use crate::common::*;

fn copy_dir(src: &std::path::Path, dst: &std::path::Path) -> std::io::Result<()> {
    std::fs::create_dir_all(dst)?;
    for e in std::fs::read_dir(src)? {
        let e = e?;
        let p = e.path();
        let d = dst.join(e.file_name());
        if p.is_dir() {
            copy_dir(&p, &d)?;
        } else if p.file_name().map(|n| n != "admin.sock").unwrap_or(true) {
            let _ = std::fs::copy(&p, &d);
        }
    }
    Ok(())
}

async fn snapshot(client: &CorrosionApiClient, id: uuid::Uuid) -> Value {
    match client.subscription(id, false, None).await {
        Err(e) => json!({"error": e.to_string()}),
        Ok(mut st) => {
            let mut rows = vec![];
            let mut eoq = json!(null);
            // generous: the machine may be busy; a snapshot that does not arrive at all is reported as such, not as empty
            let deadline = tokio::time::Instant::now() + Duration::from_secs(90);
            while let Ok(Some(ev)) = tokio::time::timeout_at(deadline, st.next()).await {
                match ev {
                    Ok(TypedQueryEvent::Row(_, cells)) => rows.push(format!("{cells:?}")),
                    Ok(TypedQueryEvent::EndOfQuery { change_id, .. }) => {
                        eoq = json!(change_id.map(|c| c.0).unwrap_or(0));
                        break;
                    }
                    Ok(TypedQueryEvent::Error(e)) => return json!({"error": e.to_string()}),
                    Err(e) => return json!({"error": e.to_string()}),
                    _ => {}
                }
            }
            rows.sort();
            if eoq.is_null() {
                return json!({"timeout": true, "rows": rows});
            }
            json!({"rows": rows, "eoq": eoq})
        }
    }
}

async fn node_rows(agent: &klukai_types::agent::Agent) -> eyre::Result<Vec<String>> {
    let conn = agent.pool().read().await?;
    let mut st = conn.prepare("SELECT id, text FROM tests")?;
    let mut out = vec![];
    let mut r = st.query([])?;
    while let Some(row) = r.next()? {
        let id: i64 = row.get(0)?;
        let t: String = row.get(1)?;
        out.push(format!("[Integer({id}), Text(\"{t}\")]"));
    }
    out.sort();
    Ok(out)
}

pub async fn run(seed: u64, mode: &str, gap_ms: u64, out_path: &str) -> eyre::Result<()> {
    let dir = fresh_dir("sublife");
    let conf = make_conf(&dir)?;
    let (tripwire, worker, trip_tx) = klukai_types::tripwire::Tripwire::new_simple();
    let (agent, _bookie, _t, handles) = klukai_agent::agent::start_with_config(conf.clone(), tripwire).await?;
    let client = CorrosionApiClient::new(agent.api_addr());
    client.schema(&[Statement::Simple(SCHEMA.into())]).await?;
    let q = Statement::Simple("SELECT id, text FROM tests".into());
    client.execute(&[Statement::Simple("INSERT INTO tests (id, text) VALUES (1, 'one')".into())], None).await?;
    let s0 = client.subscribe(&q, false, None).await?;
    let sub_id = s0.id();
    let reader = tokio::spawn(async move {
        let mut s0 = s0;
        let mut last = 0u64;
        while let Some(ev) = s0.next().await {
            if let Ok(TypedQueryEvent::Change(_, _, _, id)) = ev {
                last = id.0;
            }
        }
        last
    });
    let n = 2 + (seed % 3) as i64;
    for i in 0..n {
        client.execute(&[Statement::WithParams("INSERT INTO tests (id, text) VALUES (?, ?)".into(), vec![(10 + i).into(), format!("w{i}").into()])], None).await?;
    }
    sleep_ms(1300).await;
    let sub_db = Matcher::sub_db_path(conf.db.subscriptions_path().as_path(), sub_id);
    let mut result = json!({"mode": mode, "seed": seed, "gap_ms": gap_ms, "sub_id": sub_id.to_string()});
    if mode == "abrupt" {
        // the process "dies" now: take the files as they are
        let dir2 = fresh_dir("sublife-copy");
        copy_dir(&dir, &dir2)?;
        let conf2 = make_conf(&dir2)?;
        let sub_db2 = Matcher::sub_db_path(conf2.db.subscriptions_path().as_path(), sub_id);
        let state_before: Option<String> = rusqlite::Connection::open(sub_db2.as_std_path()).ok().and_then(|c| c.query_row("SELECT value FROM meta WHERE key = 'state'", [], |r| r.get(0)).ok());
        let (tw2, w2, t2) = klukai_types::tripwire::Tripwire::new_simple();
        std::mem::forget(w2);
        std::mem::forget(t2);
        let (agent2, _b2, _t2, _h2) = klukai_agent::agent::start_with_config(conf2.clone(), tw2).await?;
        let restored = klukai_types::updates::Manager::get(agent2.subs_manager(), &sub_id).is_some();
        let dir_exists = Matcher::sub_path(conf2.db.subscriptions_path().as_path(), sub_id).as_std_path().exists();
        let client2 = CorrosionApiClient::new(agent2.api_addr());
        let snap = snapshot(&client2, sub_id).await;
        merge(&mut result, json!({"state_at_stop": state_before, "restored": restored, "dir_exists_after_start": dir_exists, "attach_after_start": snap}));
    } else {
        // one more acknowledged write, then the graceful shutdown sequence of command/agent.rs
        client.execute(&[Statement::Simple("INSERT INTO tests (id, text) VALUES (99, 'last')".into())], None).await?;
        if gap_ms > 0 {
            // outside the region of S7: the match step of every acknowledged write has run before the shutdown begins
            // (the subscription's change log holds all n + 1 changes), however busy the machine is
            let want = n + 1;
            let mut got = 0i64;
            for _ in 0..1800 {
                got = rusqlite::Connection::open(sub_db.as_std_path()).ok().and_then(|c| c.query_row("SELECT COALESCE(MAX(id), 0) FROM changes", [], |r| r.get(0)).ok()).unwrap_or(0);
                if got >= want {
                    break;
                }
                sleep_ms(50).await;
            }
            if got < want {
                let rows = node_rows(&agent).await.unwrap_or_default();
                merge(&mut result, json!({"timeout": format!("the matcher processed only {got} of {want} changes within 90 s (node rows: {rows:?})")}));
            }
            sleep_ms(gap_ms).await;
        }
        let _ = trip_tx.send(()).await;
        worker.await;
        for h in handles {
            let _ = h.await;
        }
        agent.subs_manager().drop_handles().await;
        wait_for_all_pending_handles().await;
        let last_seen = tokio::time::timeout(Duration::from_secs(30), reader).await.ok().and_then(|r| r.ok()).unwrap_or(0);
        let (state, max_id, view_n): (Option<String>, i64, i64) = {
            let c = rusqlite::Connection::open(sub_db.as_std_path())?;
            (
                c.query_row("SELECT value FROM meta WHERE key = 'state'", [], |r| r.get(0)).ok(),
                c.query_row("SELECT COALESCE(MAX(id), 0) FROM changes", [], |r| r.get(0)).unwrap_or(-1),
                c.query_row("SELECT COUNT(*) FROM query", [], |r| r.get(0)).unwrap_or(-1),
            )
        };
        let node_before = node_rows(&agent).await?;
        // restart on the same directory
        let (tw2, w2, t2) = klukai_types::tripwire::Tripwire::new_simple();
        std::mem::forget(w2);
        std::mem::forget(t2);
        let (agent2, _b2, _t2, _h2) = klukai_agent::agent::start_with_config(conf.clone(), tw2).await?;
        let restored = klukai_types::updates::Manager::get(agent2.subs_manager(), &sub_id).is_some();
        let client2 = CorrosionApiClient::new(agent2.api_addr());
        sleep_ms(300).await;
        let snap = snapshot(&client2, sub_id).await;
        let node_after = node_rows(&agent2).await?;
        // new events continue with the next change id
        let mut first_after = json!(null);
        if restored {
            if let Ok(mut st) = client2.subscription(sub_id, true, Some(klukai_types::api::ChangeId(max_id as u64))).await {
                client2.execute(&[Statement::Simple("INSERT INTO tests (id, text) VALUES (100, 'after')".into())], None).await?;
                let deadline = tokio::time::Instant::now() + Duration::from_secs(60);
                while let Ok(Some(ev)) = tokio::time::timeout_at(deadline, st.next()).await {
                    if let Ok(TypedQueryEvent::Change(_, _, _, id)) = ev {
                        first_after = json!(id.0);
                        break;
                    }
                }
            }
        }
        if mode == "restored-abrupt" && restored && !first_after.is_null() {
            // second lifetime of the same subscription: it was restored, has processed a change since, and now the
            // process "dies" (files taken as they are); the next start must discard it
            let dir3 = fresh_dir("sublife-copy2");
            copy_dir(&dir, &dir3)?;
            let conf3 = make_conf(&dir3)?;
            let sub_db3 = Matcher::sub_db_path(conf3.db.subscriptions_path().as_path(), sub_id);
            let marker: Option<String> = rusqlite::Connection::open(sub_db3.as_std_path()).ok().and_then(|c| c.query_row("SELECT value FROM meta WHERE key = 'state'", [], |r| r.get(0)).ok());
            let (tw3, w3, t3) = klukai_types::tripwire::Tripwire::new_simple();
            std::mem::forget(w3);
            std::mem::forget(t3);
            let (agent3, _b3, _t3, _h3) = klukai_agent::agent::start_with_config(conf3.clone(), tw3).await?;
            let restored3 = klukai_types::updates::Manager::get(agent3.subs_manager(), &sub_id).is_some();
            let dir_exists3 = Matcher::sub_path(conf3.db.subscriptions_path().as_path(), sub_id).as_std_path().exists();
            let client3 = CorrosionApiClient::new(agent3.api_addr());
            let snap3 = snapshot(&client3, sub_id).await;
            merge(&mut result, json!({"second_life": {"marker_at_kill": marker, "restored": restored3, "dir_exists_after_start": dir_exists3, "attach_after_start": snap3}}));
        }
        merge(
            &mut result,
            json!({"state_at_stop": state, "max_change_id_at_stop": max_id, "view_rows_at_stop": view_n, "last_change_seen_by_client": last_seen,
                   "node_rows_at_stop": node_before, "restored": restored, "attach_after_restart": snap, "node_rows_after_restart": node_after, "first_change_after_restart": first_after}),
        );
    }
    let mut f = std::io::BufWriter::new(std::fs::File::create(out_path)?);
    writeln!(f, "{}", result)?;
    f.flush()?;
    Ok(())
}
