//! vh — verification harness binary. Sub-commands bind the TLA+ specifications in /verif/specs to
//! the real crates of /repo (path dependencies, feature `verif`).
mod apigate;
mod backup;
mod sentinel;
mod syncclient;
mod bk;
mod chunker;
mod clusterprobe;
mod common;
mod ingest;
mod matchwalk;
mod members;
mod poolstress;
mod schemareplay;
mod sim;
mod sublife;
mod subrace;
mod updwalk;
mod updorder;
mod syncneeds;

fn main() {
    let args: Vec<String> = std::env::args().collect();
    if args.len() < 2 {
        eprintln!("usage: vh <subcommand> [args]");
        std::process::exit(2);
    }
    if args[1] == "db-reader" {
        let r = backup::db_reader(&args[2], args[3].parse().unwrap_or(1000));
        std::process::exit(if r.is_ok() { 0 } else { 2 });
    }
    if args[1] == "db-reader-pinned" {
        let r = backup::reader_pinned(&args[2], args[3].parse().unwrap_or(4), &args[4]);
        if let Err(e) = &r {
            eprintln!("{e:?}");
        }
        std::process::exit(if r.is_ok() { 0 } else { 2 });
    }
    if args[1] == "restore-pin-probe" {
        let r = backup::pin_probe(&args[2], &args[3]);
        if let Err(e) = &r {
            eprintln!("{e:?}");
        }
        std::process::exit(if r.is_ok() { 0 } else { 2 });
    }
    if args[1] == "restore-cache-probe" {
        let r = backup::cache_probe(&args[2], &args[3]);
        if let Err(e) = &r {
            eprintln!("{e:?}");
        }
        std::process::exit(if r.is_ok() { 0 } else { 2 });
    }
    let rt = tokio::runtime::Builder::new_multi_thread().worker_threads(std::env::var("VH_THREADS").ok().and_then(|s| s.parse().ok()).unwrap_or(2)).enable_all().build().unwrap();
    let res: eyre::Result<()> = rt.block_on(async {
        match args[1].as_str() {
            "replay-bookkeeping" => bk::run(&args[2]).await,
            "replay-syncneeds" => syncneeds::run(&args[2]),
            "sim-walk" => {
                // sim-walk <seed> <nodes> <keys> <steps> <restart:0|1> <out.ndjson>
                let p = |i: usize| args[i].parse::<u64>().unwrap();
                sim::run_walk(p(2), p(3) as usize, p(4) as i64, p(5) as usize, p(6) == 1, &args[7]).await
            }
            "ingest-walk" => {
                // ingest-walk <seed> <qlen> <chunk> <nvers> <steps> <out>
                let p = |i: usize| args[i].parse::<u64>().unwrap();
                ingest::run_walk(p(2), p(3) as usize, p(4) as usize, p(5), p(6) as usize, &args[7]).await
            }
            "pool-stress" => poolstress::run(args[2].parse().unwrap(), args[3].parse().unwrap(), &args[4]).await,
            "sub-race" => subrace::run(args[2].parse().unwrap(), args[3].parse().unwrap(), args[4].parse().unwrap(), &args[5]).await,
            "upd-order" => updorder::run(&args[2]).await,
            "updates-walk" => updwalk::run(args[2].parse().unwrap(), args[3].parse().unwrap(), args[4].parse().unwrap(), &args[5]).await,
            "matcher-walk" => matchwalk::run(args[2].parse().unwrap(), &args[3], args[4].parse().unwrap(), &args[5]).await,
            "sub-life" => sublife::run(args[2].parse().unwrap(), &args[3], args[4].parse().unwrap(), &args[5]).await,
            "cluster-probe" => clusterprobe::run(&args[2]).await,
            "api-gate" => apigate::run(&args[2]).await,
            "schema-replay" => schemareplay::run(&args[2]).await,
            "sync-client-probe" => syncclient::run(args[2].parse().unwrap(), args[3].parse().unwrap(), &args[4]).await,
            "sentinel-probe" => sentinel::run(&args[2]).await,
            "ingest-poison" => ingest::run_poison(&args[2], &args[3]).await,
            "backup-probe" => backup::run(&args[2], &args[3]).await,
            "sim-replay" => sim::run_replay(&args[2], &args[3]).await,
            "replay-members" => members::run(&args[2]),
            "replay-chunker" => chunker::run_chunker(&args[2]),
            "replay-chunkrange" => chunker::run_chunkrange(&args[2]),
            other => Err(eyre::eyre!("unknown subcommand {other}")),
        }
    });
    match res {
        Ok(()) => {
            // agents cannot be shut down completely; process exit is the clean-up
            std::process::exit(0)
        }
        Err(e) => {
            eprintln!("vh error: {e:?}");
            std::process::exit(2)
        }
    }
}
